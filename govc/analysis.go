package main

// Static analyses: local-cell escape, may-write sets (frames for calls and
// loops), class-hierarchy resolution of interface and function-value calls.

import (
	"os"
	"go/token"
	"fmt"
	"go/types"
	"sort"
	"strings"

	"golang.org/x/tools/go/ssa"
)

type Engine struct {
	ld        *Loaded
	reachCache map[[2]*ssa.Function]bool
	typeIDs   map[string]int
	funcIDs   map[*ssa.Function]int
	globalIDs map[*ssa.Global]int
	closures  map[string]*closureVal
	escCache  map[*ssa.Alloc]bool
	modCache  map[*ssa.Function]*modSet
	modBusy   map[*ssa.Function]bool
	keySorts  map[string]Sort
	allFuncs  []*ssa.Function // module functions (incl. anonymous)
	addrTaken map[*ssa.Function]bool
	methodsByName map[string][]*ssa.Function
	tier      string
	iters     map[string]*rangeIter
	verbose   bool
}

func newEngine(ld *Loaded) *Engine {
	e := &Engine{ld: ld, typeIDs: map[string]int{}, funcIDs: map[*ssa.Function]int{}, globalIDs: map[*ssa.Global]int{}, closures: map[string]*closureVal{}, escCache: map[*ssa.Alloc]bool{}, modCache: map[*ssa.Function]*modSet{}, modBusy: map[*ssa.Function]bool{}, keySorts: map[string]Sort{}, addrTaken: map[*ssa.Function]bool{}, methodsByName: map[string][]*ssa.Function{}, iters: map[string]*rangeIter{}}
	e.indexFunctions()
	return e
}

func (e *Engine) typeID(k string) int {
	if id, ok := e.typeIDs[k]; ok {
		return id
	}
	id := len(e.typeIDs) + 1
	e.typeIDs[k] = id
	return id
}

func (e *Engine) funcID(f *ssa.Function) int {
	if id, ok := e.funcIDs[f]; ok {
		return id
	}
	id := len(e.funcIDs) + 1000000
	e.funcIDs[f] = id
	return id
}

// globals get small positive references below the initial allocation frontier.
func (e *Engine) globalID(g *ssa.Global) int {
	if id, ok := e.globalIDs[g]; ok {
		return id
	}
	id := len(e.globalIDs) + 1
	e.globalIDs[g] = id
	return id
}

const maxGlobals = 100000

func inModule(f *ssa.Function) bool {
	if f == nil {
		return false
	}
	p := f.Package()
	if p == nil {
		if f.Origin() != nil {
			p = f.Origin().Package()
		}
		if p == nil && f.Parent() != nil {
			return inModule(f.Parent())
		}
	}
	return p != nil && strings.HasPrefix(p.Pkg.Path(), modulePath)
}

func (e *Engine) indexFunctions() {
	seen := map[*ssa.Function]bool{}
	var add func(f *ssa.Function)
	add = func(f *ssa.Function) {
		if f == nil || seen[f] {
			return
		}
		seen[f] = true
		if !inModule(f) {
			return
		}
		e.allFuncs = append(e.allFuncs, f)
		for _, a := range f.AnonFuncs {
			add(a)
		}
	}
	for _, p := range e.ld.Prog.AllPackages() {
		if !strings.HasPrefix(p.Pkg.Path(), modulePath) {
			continue
		}
		for _, m := range p.Members {
			switch m := m.(type) {
			case *ssa.Function:
				add(m)
			case *ssa.Type:
				for _, t := range []types.Type{m.Type(), types.NewPointer(m.Type())} {
					ms := e.ld.Prog.MethodSets.MethodSet(t)
					for i := 0; i < ms.Len(); i++ {
						add(e.ld.Prog.MethodValue(ms.At(i)))
					}
				}
			}
		}
	}
	sort.Slice(e.allFuncs, func(i, j int) bool { return e.allFuncs[i].String() < e.allFuncs[j].String() })
	for _, f := range e.allFuncs {
		if f.Signature.Recv() != nil {
			e.methodsByName[f.Name()] = append(e.methodsByName[f.Name()], f)
		}
		for _, b := range f.Blocks {
			for _, in := range b.Instrs {
				// function values used other than as static callee
				ops := in.Operands(nil)
				var callee ssa.Value
				if c, ok := in.(ssa.CallInstruction); ok && !c.Common().IsInvoke() {
					callee = c.Common().Value
				}
				for _, op := range ops {
					if op == nil || *op == nil {
						continue
					}
					if fn, ok := (*op).(*ssa.Function); ok && *op != callee {
						e.addrTaken[fn] = true
					}
					if mc, ok := (*op).(*ssa.MakeClosure); ok {
						_ = mc
					}
				}
				if mc, ok := in.(*ssa.MakeClosure); ok {
					e.addrTaken[mc.Fn.(*ssa.Function)] = true
				}
			}
		}
	}
}

// escapes decides whether a local allocation must live in the symbolic heap.
// A cell stays an engine-level local only if every use of its address is a
// load, a store to it, or a field address with the same property.
func (e *Engine) escapes(a *ssa.Alloc) bool {
	if v, ok := e.escCache[a]; ok {
		return v
	}
	res := e.addrEscapes(a, 0)
	e.escCache[a] = res
	return res
}

func (e *Engine) addrEscapes(v ssa.Value, depth int) bool {
	if depth > 8 {
		return true
	}
	refs := v.Referrers()
	if refs == nil {
		return true
	}
	for _, r := range *refs {
		switch r := r.(type) {
		case *ssa.DebugRef:
		case *ssa.UnOp:
			if r.Op.String() != "*" {
				return true
			}
		case *ssa.Store:
			if r.Val == v {
				return true
			}
		case *ssa.FieldAddr:
			if e.addrEscapes(r, depth+1) {
				return true
			}
		case *ssa.IndexAddr:
			return true
		default:
			return true
		}
	}
	return false
}

// ---- may-write sets ----

type modSet struct {
	keys map[string]bool
	all  bool
}

func (m *modSet) add(o *modSet) {
	if o.all {
		m.all = true
	}
	for k := range o.keys {
		m.keys[k] = true
	}
}

func (e *Engine) keySort(k string) Sort {
	if s, ok := e.keySorts[k]; ok {
		return s
	}
	panic("keySort: unknown key " + k)
}

func (e *Engine) regKey(key string, leaf Leaf) {
	if _, ok := e.keySorts[key]; ok {
		return
	}
	if strings.HasPrefix(key, "A|") {
		e.keySorts[key] = ArrSort(SInt, ArrSort(SInt, leaf.Sort))
	} else {
		e.keySorts[key] = ArrSort(SInt, leaf.Sort)
	}
}

// addrKeys computes the heap keys a store of type typ through address v may touch.
// local reports that the address is a fresh local allocation of the function.
func (e *Engine) addrKeys(v ssa.Value, typ types.Type, out map[string]bool) (local bool) {
	n := len(layout(typ))
	switch a := v.(type) {
	case *ssa.Alloc:
		t := deref(a.Type())
		if arr, ok := t.Underlying().(*types.Array); ok {
			_ = arr
			return true
		}
		return true
	case *ssa.FieldAddr:
		st := deref(a.X.Type()).Underlying().(*types.Struct)
		off := fieldOffset(st, a.Field)
		return e.addrKeysAt(a.X, deref(a.X.Type()), off, n, out)
	case *ssa.IndexAddr:
		switch xt := a.X.Type().Underlying().(type) {
		case *types.Slice:
			lay := layout(xt.Elem())
			for k := 0; k < n && k < len(lay); k++ {
				key := arrKey(xt.Elem(), k)
				e.regKey(key, lay[k])
				out[key] = true
			}
			return false
		case *types.Pointer:
			arr := xt.Elem().Underlying().(*types.Array)
			if _, isAlloc := a.X.(*ssa.Alloc); isAlloc {
				return true
			}
			lay := layout(arr.Elem())
			for k := 0; k < len(lay); k++ {
				key := arrKey(arr.Elem(), k)
				e.regKey(key, lay[k])
				out[key] = true
			}
			// and flat-in-object representation
			return e.addrKeysAt(a.X, xt.Elem(), 0, len(layout(xt.Elem())), out)
		}
		return false
	default:
		return e.addrKeysAt(v, deref(v.Type()), 0, n, out)
	}
}

// addrKeysAt: leaves [off, off+n) of the object of type root addressed by base.
func (e *Engine) addrKeysAt(base ssa.Value, root types.Type, off, n int, out map[string]bool) bool {
	switch b := base.(type) {
	case *ssa.Alloc:
		return true
	case *ssa.FieldAddr:
		st := deref(b.X.Type()).Underlying().(*types.Struct)
		return e.addrKeysAt(b.X, deref(b.X.Type()), fieldOffset(st, b.Field)+off, n, out)
	case *ssa.IndexAddr:
		var elem types.Type
		switch xt := b.X.Type().Underlying().(type) {
		case *types.Slice:
			elem = xt.Elem()
		case *types.Pointer:
			elem = xt.Elem().Underlying().(*types.Array).Elem()
			if _, isAlloc := b.X.(*ssa.Alloc); isAlloc {
				return true
			}
		}
		lay := layout(elem)
		for k := off; k < off+n && k < len(lay); k++ {
			key := arrKey(elem, k)
			e.regKey(key, lay[k])
			out[key] = true
		}
		return false
	}
	lay := layout(root)
	for k := off; k < off+n && k < len(lay); k++ {
		key := objKey(root, k)
		e.regKey(key, lay[k])
		out[key] = true
	}
	return false
}

func (e *Engine) allKeysOfType(t types.Type, out map[string]bool, depth int) {
	// everything reachable by one dereference from a value of type t
	switch u := t.Underlying().(type) {
	case *types.Pointer:
		el := u.Elem()
		if opaqueNamed(el) {
			return
		}
		lay := layout(el)
		for k := range lay {
			key := objKey(el, k)
			e.regKey(key, lay[k])
			out[key] = true
		}
	case *types.Slice:
		lay := layout(u.Elem())
		for k := range lay {
			key := arrKey(u.Elem(), k)
			e.regKey(key, lay[k])
			out[key] = true
		}
	case *types.Map:
		out[mapKey(t)] = true
		e.keySorts[mapKey(t)] = mapSort(t)
		out[mapKey(t)+"#p"] = true
		e.keySorts[mapKey(t)+"#p"] = mapPresentSort(t)
	}
}

// modset computes the may-write set of a function (heap keys).
func (e *Engine) modset(fn *ssa.Function) *modSet {
	if m, ok := e.modCache[fn]; ok {
		return m
	}
	if e.modBusy[fn] {
		return &modSet{keys: map[string]bool{}}
	}
	// fixed point over the call graph, computed on demand with an SCC-free
	// iteration: iterate until nothing changes.
	e.computeModsets(fn)
	return e.modCache[fn]
}

func (e *Engine) computeModsets(root *ssa.Function) {
	// collect reachable module functions
	reach := map[*ssa.Function]bool{}
	var order []*ssa.Function
	var visit func(f *ssa.Function)
	edges := map[*ssa.Function][]*ssa.Function{}
	direct := map[*ssa.Function]*modSet{}
	visit = func(f *ssa.Function) {
		if reach[f] {
			return
		}
		reach[f] = true
		order = append(order, f)
		d := &modSet{keys: map[string]bool{}}
		direct[f] = d
		if _, done := e.modCache[f]; done {
			return
		}
		if len(f.Blocks) == 0 {
			return
		}
		for _, b := range f.Blocks {
			for _, in := range b.Instrs {
				if _, isGo := in.(*ssa.Go); isGo {
					// a goroutine started here runs concurrently: its effects are
					// not part of the sequential effect of the call (the same
					// reading as when the body is executed: "goroutine not modelled")
					continue
				}
				e.directWrites(f, in, d)
				for _, callee := range e.callees(in) {
					edges[f] = append(edges[f], callee)
					visit(callee)
				}
			}
		}
	}
	visit(root)
	cur := map[*ssa.Function]*modSet{}
	for _, f := range order {
		if m, done := e.modCache[f]; done {
			cur[f] = m
			continue
		}
		m := &modSet{keys: map[string]bool{}}
		m.add(direct[f])
		cur[f] = m
	}
	changed := true
	for changed {
		changed = false
		for _, f := range order {
			if _, done := e.modCache[f]; done {
				continue
			}
			m := cur[f]
			before := len(m.keys)
			ball := m.all
			for _, c := range edges[f] {
				m.add(cur[c])
			}
			if len(m.keys) != before || m.all != ball {
				changed = true
			}
		}
	}
	for _, f := range order {
		if _, done := e.modCache[f]; !done {
			e.modCache[f] = cur[f]
		}
	}
}

// callees resolves the module functions an instruction may call.
func (e *Engine) callees(in ssa.Instruction) []*ssa.Function {
	ci, ok := in.(ssa.CallInstruction)
	if !ok {
		return nil
	}
	cc := ci.Common()
	var out []*ssa.Function
	if cc.IsInvoke() {
		out = append(out, e.implementations(cc.Value.Type(), cc.Method)...)
		return out
	}
	if callee := cc.StaticCallee(); callee != nil {
		if inModule(callee) {
			if b := e.ld.ByFn[callee]; b != nil && b.IsGhostDecl {
				return nil
			}
			out = append(out, callee)
			out = append(out, e.funcArgCallees(cc)...)
			return out
		}
		// external function: callbacks through function / interface arguments
		for _, a := range cc.Args {
			if mi, ok := a.(*ssa.MakeInterface); ok {
				// the dynamic type is known at the call site
				out = append(out, e.methodsOfConcrete(mi.X.Type(), a.Type())...)
				continue
			}
			if _, isSig := a.Type().Underlying().(*types.Signature); isSig {
				switch v := a.(type) {
				case *ssa.MakeClosure:
					out = append(out, v.Fn.(*ssa.Function))
					continue
				case *ssa.Function:
					if inModule(v) {
						out = append(out, v)
					}
					continue
				case *ssa.Const:
					continue
				}
			}
			out = append(out, e.callbacksOf(a.Type(), 0)...)
		}
		if callee.Signature.Recv() != nil && len(cc.Args) > 0 {
			// receiver may hold module callbacks (e.g. a bufio.Reader wrapping a module reader)
			out = append(out, e.callbacksOf(cc.Args[0].Type(), 0)...)
		}
		return out
	}
	if _, ok := cc.Value.(*ssa.Builtin); ok {
		return nil
	}
	// dynamic call of a function value
	if _, isParam := cc.Value.(*ssa.Parameter); isParam {
		// a call of the enclosing function's own func-typed parameter: its
		// effect is accounted for at each call site of the enclosing function,
		// where the actual function value is visible (see funcArgCallees).
		// Assumption: such parameters are only called, not stored for later.
		return out
	}
	if mc, ok := cc.Value.(*ssa.MakeClosure); ok {
		return append(out, mc.Fn.(*ssa.Function))
	}
	if fs, ok := funcCellValues(cc.Value); ok && os.Getenv("GOVC_NOFUNCCELL") == "" {
		return append(out, fs...)
	}
	if sig, ok := cc.Value.Type().Underlying().(*types.Signature); ok {
		out = append(out, e.funcsWithSig(sig)...)
	}
	return out
}

// funcCellValues resolves a function value loaded from a local variable (an
// Alloc of function type, possibly captured by closures of the same function)
// when every store to that variable stores a closure or a named function and
// the variable's address is used for nothing else.
func funcCellValues(v ssa.Value) ([]*ssa.Function, bool) {
	ld, ok := v.(*ssa.UnOp)
	if !ok || ld.Op != token.MUL {
		return nil, false
	}
	alloc := rootAlloc(ld.X)
	if alloc == nil {
		return nil, false
	}
	var out []*ssa.Function
	okAll := true
	var visit func(addr ssa.Value)
	visit = func(addr ssa.Value) {
		refs := addr.Referrers()
		if refs == nil {
			okAll = false
			return
		}
		for _, r := range *refs {
			switch r := r.(type) {
			case *ssa.Store:
				if r.Addr != addr {
					okAll = false // the address itself is stored somewhere
					continue
				}
				switch val := r.Val.(type) {
				case *ssa.MakeClosure:
					out = append(out, val.Fn.(*ssa.Function))
				case *ssa.Function:
					out = append(out, val)
				case *ssa.Const:
					// nil
				default:
					okAll = false
				}
			case *ssa.UnOp:
				// load
			case *ssa.MakeClosure:
				fn := r.Fn.(*ssa.Function)
				for i, b := range r.Bindings {
					if b == addr && i < len(fn.FreeVars) {
						visit(fn.FreeVars[i])
					}
				}
			case *ssa.DebugRef:
			default:
				okAll = false
			}
		}
	}
	visit(alloc)
	if !okAll {
		return nil, false
	}
	return out, true
}

// rootAlloc follows a free variable back to the Alloc it was bound to.
func rootAlloc(v ssa.Value) *ssa.Alloc {
	for depth := 0; depth < 8; depth++ {
		switch a := v.(type) {
		case *ssa.Alloc:
			return a
		case *ssa.FreeVar:
			fn := a.Parent()
			par := fn.Parent()
			if par == nil {
				return nil
			}
			idx := -1
			for i, fv := range fn.FreeVars {
				if fv == a {
					idx = i
				}
			}
			var bound ssa.Value
			n := 0
			for _, b := range par.Blocks {
				for _, in := range b.Instrs {
					if mc, ok := in.(*ssa.MakeClosure); ok && mc.Fn == fn && idx >= 0 && idx < len(mc.Bindings) {
						bound = mc.Bindings[idx]
						n++
					}
				}
			}
			if n != 1 {
				return nil
			}
			v = bound
		default:
			return nil
		}
	}
	return nil
}

// funcArgCallees: functions passed as arguments at a call of a module function
// may be called by it.
func (e *Engine) funcArgCallees(cc *ssa.CallCommon) []*ssa.Function {
	var out []*ssa.Function
	for _, a := range cc.Args {
		sig, ok := a.Type().Underlying().(*types.Signature)
		if !ok {
			continue
		}
		switch v := a.(type) {
		case *ssa.MakeClosure:
			out = append(out, v.Fn.(*ssa.Function))
		case *ssa.Function:
			if inModule(v) {
				out = append(out, v)
			}
		case *ssa.Parameter:
			// forwarded parameter: accounted for at the caller's own call sites
		case *ssa.Const:
			// nil function
		default:
			out = append(out, e.funcsWithSig(sig)...)
		}
	}
	return out
}

func (e *Engine) funcsWithSig(sig *types.Signature) []*ssa.Function {
	var out []*ssa.Function
	for f := range e.addrTaken {
		if !inModule(f) {
			continue
		}
		fs := f.Signature
		if fs.Recv() != nil {
			fs = types.NewSignatureType(nil, nil, nil, fs.Params(), fs.Results(), fs.Variadic())
		}
		if types.Identical(fs, sig) || sameShape(fs, sig) {
			out = append(out, f)
		}
	}
	sort.Slice(out, func(i, j int) bool { return out[i].String() < out[j].String() })
	return out
}

func sameShape(a, b *types.Signature) bool {
	if a.Params().Len() != b.Params().Len() || a.Results().Len() != b.Results().Len() {
		return false
	}
	for i := 0; i < a.Params().Len(); i++ {
		if !types.Identical(a.Params().At(i).Type(), b.Params().At(i).Type()) {
			return false
		}
	}
	for i := 0; i < a.Results().Len(); i++ {
		if !types.Identical(a.Results().At(i).Type(), b.Results().At(i).Type()) {
			return false
		}
	}
	return true
}

// implementations: module methods that may be the target of an interface call.
func (e *Engine) implementations(iface types.Type, m *types.Func) []*ssa.Function {
	var out []*ssa.Function
	it, _ := iface.Underlying().(*types.Interface)
	for _, f := range e.methodsByName[m.Name()] {
		recv := f.Signature.Recv().Type()
		if it != nil && !types.Implements(recv, it) {
			if p, ok := recv.(*types.Pointer); !ok || !types.Implements(p, it) {
				continue
			}
		}
		out = append(out, f)
	}
	return out
}

// callbacksOf: module functions reachable as callbacks from a value of type t
// handed to external code (interfaces: every module method implementing any
// method of the interface; function values: matching signatures).
func (e *Engine) callbacksOf(t types.Type, depth int) []*ssa.Function {
	if depth > 2 {
		return nil
	}
	var out []*ssa.Function
	switch u := t.Underlying().(type) {
	case *types.Interface:
		for i := 0; i < u.NumMethods(); i++ {
			out = append(out, e.implementations(t, u.Method(i))...)
		}
		if u.NumMethods() == 0 {
			// interface{}: fmt verbs may call String/Error/Format of module types
			for _, name := range []string{"String", "Error", "GoString", "Format"} {
				for _, m := range e.methodsByName[name] {
					if fmtMethod(m) {
						out = append(out, m)
					}
				}
			}
		}
	case *types.Signature:
		out = append(out, e.funcsWithSig(u)...)
	case *types.Pointer:
		// external structs (bufio.Reader, tls.Conn, ...) may wrap module
		// readers/writers; those wrappers (debug writers, startTLSConn) write
		// no module state that contracts speak about. Assumption, listed in
		// the trusted base.
	case *types.Slice:
		out = append(out, e.callbacksOf(u.Elem(), depth+1)...)
	}
	return out
}

// directWrites records the heap keys an instruction itself writes.
func (e *Engine) directWrites(f *ssa.Function, in ssa.Instruction, d *modSet) {
	switch in := in.(type) {
	case *ssa.Store:
		e.addrKeys(in.Addr, in.Val.Type(), d.keys)
	case *ssa.MapUpdate:
		k := mapKey(in.Map.Type())
		d.keys[k] = true
		d.keys[k+"#p"] = true
		e.keySorts[k] = mapSort(in.Map.Type())
		e.keySorts[k+"#p"] = mapPresentSort(in.Map.Type())
	case *ssa.Next:
		// iterating over a map advances the ghost set of keys already visited
		if !in.IsString {
			if r, ok := in.Iter.(*ssa.Range); ok {
				if _, isMap := r.X.Type().Underlying().(*types.Map); isMap {
					k := mapKey(r.X.Type()) + "#visited"
					d.keys[k] = true
					e.keySorts[k] = mapPresentSort(r.X.Type())
				}
			}
		}
	case *ssa.Range:
		if _, isMap := in.X.Type().Underlying().(*types.Map); isMap {
			k := mapKey(in.X.Type()) + "#visited"
			d.keys[k] = true
			e.keySorts[k] = mapPresentSort(in.X.Type())
		}
	case ssa.CallInstruction:
		cc := in.Common()
		if b, ok := cc.Value.(*ssa.Builtin); ok {
			switch b.Name() {
			case "append", "copy":
				e.allKeysOfType(cc.Args[0].Type(), d.keys, 0)
			case "delete":
				k := mapKey(cc.Args[0].Type())
				d.keys[k] = true
				d.keys[k+"#p"] = true
				e.keySorts[k] = mapSort(cc.Args[0].Type())
				e.keySorts[k+"#p"] = mapPresentSort(cc.Args[0].Type())
			case "clear":
				e.allKeysOfType(cc.Args[0].Type(), d.keys, 0)
			}
			return
		}
		callee := cc.StaticCallee()
		if callee != nil {
			if b := e.ld.ByFn[callee]; b != nil {
				for _, g := range b.GhostInc {
					// an event guarded by `<param> != ""` does not fire when the
					// argument is the constant empty string
					fires := true
					for i, pn := range b.ParamNames {
						if strings.TrimSpace(g.Text) == pn+` != ""` && i < len(cc.Args) {
							if k, ok := cc.Args[i].(*ssa.Const); ok && k.Value != nil && k.Value.ExactString() == `""` {
								fires = false
							}
						}
					}
					if fires {
						d.keys["G|"+g.Callee] = true
						e.keySorts["G|"+g.Callee] = ArrSort(SInt, SInt)
					}
				}
			}
		}
		if callee != nil && strings.HasPrefix(callee.String(), "(*strings.Builder).") {
			switch callee.Name() {
			case "String", "Len", "Cap", "Grow":
				return
			}
			d.keys[ghostBuilder] = true
			e.keySorts[ghostBuilder] = ArrSort(SInt, SStr)
			return
		}
		if callee != nil && strings.HasPrefix(callee.String(), "(*bufio.Reader).") {
			d.keys[ghostCanUnread] = true
			e.keySorts[ghostCanUnread] = ArrSort(SInt, SBool)
		}
		if cc.IsInvoke() || callee == nil || !inModule(callee) || len(callee.Blocks) == 0 {
			// external / unknown code: may write what its pointer, slice and
			// map arguments reach directly.
			if callee != nil && pureExternal(callee) {
				return
			}
			for _, a := range cc.Args {
				e.argReach(a, d.keys)
			}
			if cc.IsInvoke() {
				// the receiver object itself belongs to the implementation;
				// module implementations are covered through call edges.
			}
		} else {
			// module callee: interior pointers passed as arguments count as written
			for _, a := range cc.Args {
				switch a.(type) {
				case *ssa.FieldAddr, *ssa.IndexAddr:
					e.addrKeys(a, deref(a.Type()), d.keys)
				}
			}
		}
	}
}

// argReach: keys an external callee may write through argument a.
func (e *Engine) argReach(a ssa.Value, out map[string]bool) {
	switch a.(type) {
	case *ssa.FieldAddr, *ssa.IndexAddr:
		e.addrKeys(a, deref(a.Type()), out)
		return
	case *ssa.Alloc:
		// an escaping local lives in the symbolic heap as an object of its type
		e.allKeysOfType(a.Type(), out, 0)
		return
	}
	switch u := a.Type().Underlying().(type) {
	case *types.Pointer:
		el := u.Elem()
		if n, ok := el.(*types.Named); ok && n.Obj().Pkg() != nil && strings.HasPrefix(n.Obj().Pkg().Path(), modulePath) {
			// module struct handed to external code: exported fields could be
			// written by reflection-free external code only through methods
			// (covered by callbacks); treat fields as unwritten.
			return
		}
		e.allKeysOfType(a.Type(), out, 0)
	case *types.Slice:
		e.allKeysOfType(a.Type(), out, 0)
	case *types.Map:
		e.allKeysOfType(a.Type(), out, 0)
	}
}

// pureExternal: external functions known not to write through their arguments.
func pureExternal(f *ssa.Function) bool {
	if f.Pkg == nil {
		return false
	}
	switch f.Pkg.Pkg.Path() {
	case "strings", "strconv", "unicode", "unicode/utf8", "unicode/utf16", "errors", "fmt", "time", "math", "sort", "bytes", "mime", "net/textproto", "path", "reflect":
		name := f.Name()
		if f.Pkg.Pkg.Path() == "fmt" && (strings.HasPrefix(name, "Fprint") || strings.HasPrefix(name, "Fscan") || strings.HasPrefix(name, "Sscan")) {
			return false
		}
		if f.Pkg.Pkg.Path() == "sort" || f.Pkg.Pkg.Path() == "bytes" || f.Pkg.Pkg.Path() == "strconv" && strings.HasPrefix(name, "Append") {
			return false
		}
		if f.Pkg.Pkg.Path() == "unicode/utf8" && (name == "EncodeRune" || name == "AppendRune") {
			return false
		}
		if f.Pkg.Pkg.Path() == "unicode/utf16" && name == "AppendRune" {
			return false
		}
		return f.Signature.Recv() == nil || f.Pkg.Pkg.Path() == "time" || f.Pkg.Pkg.Path() == "reflect"
	}
	return false
}

// instrWrites: what one instruction (in a loop body) may modify, including
// engine-level local cells.
func (e *Engine) instrWrites(f *Frame, in ssa.Instruction, keys map[string]bool, cells map[*Cell]bool, all *bool) {
	d := &modSet{keys: keys}
	switch in := in.(type) {
	case *ssa.Store:
		if cell := f.cellOfAddr(in.Addr); cell != nil {
			cells[cell] = true
			return
		}
	}
	e.directWrites(f.fn, in, d)
	for _, callee := range e.callees(in) {
		d.add(e.modset(callee))
	}
	if ci, ok := in.(ssa.CallInstruction); ok {
		// closures called or deferred in the loop may write captured local cells
		cc := ci.Common()
		for _, callee := range e.calleesIncludingClosures(cc) {
			for _, fv := range callee.FreeVars {
				_ = fv
			}
		}
	}
	if d.all {
		*all = true
	}
}

func (e *Engine) calleesIncludingClosures(cc *ssa.CallCommon) []*ssa.Function {
	if mc, ok := cc.Value.(*ssa.MakeClosure); ok {
		return []*ssa.Function{mc.Fn.(*ssa.Function)}
	}
	return nil
}

// cellOfAddr: the engine-level cell an address value denotes, if any.
func (f *Frame) cellOfAddr(v ssa.Value) *Cell {
	for {
		switch a := v.(type) {
		case *ssa.FieldAddr:
			v = a.X
			continue
		case *ssa.Alloc:
			if ts, ok := f.vals[a]; ok {
				if sh, ok := f.ctx.shapes[ts[0].S]; ok && sh.Kind == pLocal {
					return sh.Cell
				}
			}
			return nil
		case *ssa.FreeVar:
			ts := f.get(a)
			if sh, ok := f.ctx.shapes[ts[0].S]; ok && sh.Kind == pLocal {
				return sh.Cell
			}
			return nil
		}
		return nil
	}
}

func mapKey(t types.Type) string {
	m := t.Underlying().(*types.Map)
	return fmt.Sprintf("M|%s|%s", typeKey(m.Key()), elemKey(m.Elem()))
}

func mapKeySort(t types.Type) Sort {
	m := t.Underlying().(*types.Map)
	l := layout(m.Key())
	if len(l) != 1 {
		return SInt
	}
	return l[0].Sort
}

// Maps: value leaf 0 only is modelled precisely (single-leaf element types);
// other maps are read as unconstrained values.
func mapSort(t types.Type) Sort {
	m := t.Underlying().(*types.Map)
	l := layout(m.Elem())
	vs := SInt
	if len(l) == 1 {
		vs = l[0].Sort
	}
	return ArrSort(SInt, ArrSort(mapKeySort(t), vs))
}

func mapPresentSort(t types.Type) Sort {
	return ArrSort(SInt, ArrSort(mapKeySort(t), SBool))
}

func (c *Ctx) havocAllHeap(st *State) {
	// a new heap generation: every key denotes a fresh initial constant
	st.Heap = map[string]Term{}
	c.genN++
	st.Gen = c.genN
	c.genAlloc[st.Gen] = st.Alloc
	c.note("abstracted", "whole-heap havoc in "+c.unit)
}

// methodsOfConcrete: module methods of concrete type t that implement methods of iface.
func (e *Engine) methodsOfConcrete(t types.Type, iface types.Type) []*ssa.Function {
	var out []*ssa.Function
	it, ok := iface.Underlying().(*types.Interface)
	if !ok {
		return nil
	}
	ms := e.ld.Prog.MethodSets.MethodSet(t)
	for i := 0; i < ms.Len(); i++ {
		sel := ms.At(i)
		fn := e.ld.Prog.MethodValue(sel)
		if fn == nil || !inModule(fn) {
			continue
		}
		if it.NumMethods() == 0 {
			if fmtMethod(fn) {
				out = append(out, fn)
			}
			continue
		}
		for j := 0; j < it.NumMethods(); j++ {
			if it.Method(j).Name() == fn.Name() {
				out = append(out, fn)
			}
		}
	}
	return out
}

// fmtMethod: methods package fmt may call on an operand: String/Error/GoString
// with signature func() string, or Format(fmt.State, rune).
func fmtMethod(fn *ssa.Function) bool {
	sig := fn.Signature
	switch fn.Name() {
	case "String", "Error", "GoString":
		return sig.Params().Len() == 0 && sig.Results().Len() == 1 && sig.Results().At(0).Type().String() == "string"
	case "Format":
		return sig.Params().Len() == 2 && sig.Results().Len() == 0
	}
	return false
}

// callRecordNames over-approximates the names under which a call instruction
// (and the calls of callees that may be executed in place) can be entered in
// the ghost call records of the function under verification. "*" = any name.
func (e *Engine) callRecordNames(cc *ssa.CallCommon, out map[string]bool, depth int, seen map[*ssa.Function]bool) {
	addNamed := func(t types.Type, m string) {
		out[m] = true
		if p, ok := t.(*types.Pointer); ok {
			t = p.Elem()
		}
		if n, ok := t.(*types.Named); ok {
			short := n.Obj().Name() + "." + m
			out[short] = true
			if n.Obj().Pkg() != nil {
				out[n.Obj().Pkg().Name()+"."+short] = true
			}
		}
	}
	var body func(fn *ssa.Function)
	body = func(fn *ssa.Function) {
		if fn == nil || seen[fn] || len(fn.Blocks) == 0 {
			return
		}
		if depth > 6 {
			out["*"] = true
			return
		}
		seen[fn] = true
		for _, b := range fn.Blocks {
			for _, in := range b.Instrs {
				if ci, ok := in.(ssa.CallInstruction); ok {
					e.callRecordNames(ci.Common(), out, depth+1, seen)
				}
				if mc, ok := in.(*ssa.MakeClosure); ok {
					if g, ok := mc.Fn.(*ssa.Function); ok {
						sub := depth
						depth++
						body(g)
						depth = sub
					}
				}
			}
		}
	}
	if cc.IsInvoke() {
		addNamed(cc.Value.Type(), cc.Method.Name())
		// implementations whose contract is applied record under the interface
		// name only; nothing else to add
		return
	}
	callee := cc.StaticCallee()
	if callee == nil {
		// function value: a field name, a closure, or unknown
		switch v := cc.Value.(type) {
		case *ssa.MakeClosure:
			if g, ok := v.Fn.(*ssa.Function); ok {
				body(g)
			}
			return
		case *ssa.UnOp:
			if fa, ok := v.X.(*ssa.FieldAddr); ok {
				if stt, ok := deref(fa.X.Type()).Underlying().(*types.Struct); ok {
					out[stt.Field(fa.Field).Name()] = true
				}
			}
		}
		if p, ok := cc.Value.(*ssa.Parameter); ok {
			out[p.Name()] = true
		}
		// a function value of unknown origin may be a closure of this function
		out["*"] = true
		return
	}
	if callee.Origin() != nil && callee.Origin() != callee {
		out[callee.Origin().Name()] = true
	}
	out[callee.Name()] = true
	if callee.Signature.Recv() != nil {
		addNamed(callee.Signature.Recv().Type(), callee.Name())
	} else if callee.Pkg != nil {
		out[callee.Pkg.Pkg.Name()+"."+callee.Name()] = true
	}
	if !inModule(callee) {
		return
	}
	if blk := e.ld.ByFn[callee]; blk != nil && !blk.IsGhostDecl && callee.Parent() == nil {
		// called by contract (or inlined small leaf with its own block: its
		// inner calls are recorded too when executed in place)
		if !smallLeaf(callee) {
			return
		}
	}
	body(callee)
	// function-valued arguments (closures) may be run by the callee
	for _, a := range cc.Args {
		if mc, ok := a.(*ssa.MakeClosure); ok {
			if g, ok := mc.Fn.(*ssa.Function); ok {
				body(g)
			}
		}
	}
}

// reaches: to is reachable from from through static calls and closures created
// (in-module functions only; interface and function-value calls are not followed).
func (e *Engine) reaches(from, to *ssa.Function) bool {
	if e.reachCache == nil {
		e.reachCache = map[[2]*ssa.Function]bool{}
	}
	key := [2]*ssa.Function{from, to}
	if v, ok := e.reachCache[key]; ok {
		return v
	}
	seen := map[*ssa.Function]bool{}
	var visit func(g *ssa.Function) bool
	visit = func(g *ssa.Function) bool {
		if g == nil || seen[g] || !inModule(g) {
			return false
		}
		seen[g] = true
		for _, b := range g.Blocks {
			for _, in := range b.Instrs {
				var next []*ssa.Function
				if ci, ok := in.(ssa.CallInstruction); ok {
					if sc := ci.Common().StaticCallee(); sc != nil {
						next = append(next, sc)
					}
				}
				if mc, ok := in.(*ssa.MakeClosure); ok {
					if g2, ok := mc.Fn.(*ssa.Function); ok {
						next = append(next, g2)
					}
				}
				for _, n := range next {
					if n == to || visit(n) {
						return true
					}
				}
			}
		}
		return false
	}
	r := visit(from)
	e.reachCache[key] = r
	return r
}
