package main

// Calls: builtins, contracts, inlining, opaque calls with computed frames,
// specification evaluation (quantifiers, old, recursive ghost functions).

import (
	"os"
	"fmt"
	"go/constant"
	"go/token"
	"go/types"
	"sort"
	"strings"

	"golang.org/x/tools/go/ssa"
)

type HeapSnap struct {
	Heap map[string]Term
	Gen  int
}

func snapOf(s *State) HeapSnap {
	h := make(map[string]Term, len(s.Heap))
	for k, v := range s.Heap {
		h[k] = v
	}
	return HeapSnap{h, s.Gen}
}

type pendingFact struct {
	t       Term
	pattern []Term
	vars    []Term // bound variables of enclosing quantifiers collected so far
}

func (c *Ctx) addFact(t Term, pattern ...Term) {
	if t.IsTrue() {
		return
	}
	c.pending = append(c.pending, pendingFact{t: t, pattern: pattern})
}

// flushFacts moves collected side facts into the state (outside quantifiers).
func (c *Ctx) flushFacts(st *State) {
	if len(c.quantVars) > 0 {
		return
	}
	p := c.pending
	c.pending = nil
	for _, f := range p {
		st.assume(c, f.t)
	}
}

func argLeaves(f *Frame, cc *ssa.CallCommon) [][]Term {
	var out [][]Term
	for _, a := range cc.Args {
		out = append(out, f.get(a))
	}
	return out
}

func flatten(vs [][]Term) []Term {
	var out []Term
	for _, v := range vs {
		out = append(out, v...)
	}
	return out
}

func resultType(cc *ssa.CallCommon) types.Type {
	return cc.Signature().Results()
}

func (f *Frame) freshResults(cc *ssa.CallCommon, st *State, prefix string) []Term {
	res := cc.Signature().Results()
	var out []Term
	for i := 0; i < res.Len(); i++ {
		ts := f.ctx.freshLeaves(fmt.Sprintf("%s_r%d", prefix, i), res.At(i).Type())
		f.ctx.assumeFact(st, typeInv(res.At(i).Type(), ts))
		st.assume(f.ctx, refsBelow(res.At(i).Type(), ts, st.Alloc))
		out = append(out, ts...)
	}
	return out
}

func (f *Frame) call(in ssa.Instruction, cc *ssa.CallCommon, st *State) []Term {
	c := f.ctx
	if cc.IsInvoke() {
		return f.invoke(in, cc, st)
	}
	if b, ok := cc.Value.(*ssa.Builtin); ok {
		return f.builtin(in, b, cc, st)
	}
	callee := cc.StaticCallee()
	args := argLeaves(f, cc)
	if callee == nil {
		// function value
		fv := f.get(cc.Value)
		if cl, ok := c.eng.closures[fv[0].S]; ok {
			return f.inline(cl.fn, args, cl.binds, st, in)
		}
		if p, ok := cc.Value.(*ssa.Parameter); ok {
			// call-site clauses may name a function-valued parameter
			f.callsiteObligations(in, p.Name(), p.Name(), nil, args, st)
		}
		if ld, ok := cc.Value.(*ssa.UnOp); ok {
			if fa, ok := ld.X.(*ssa.FieldAddr); ok {
				if stt, ok := deref(fa.X.Type()).Underlying().(*types.Struct); ok {
					// ... or a function value loaded from a struct field, by the field's name
					n := stt.Field(fa.Field).Name()
					f.callsiteObligations(in, n, n, nil, args, st)
				}
			}
		}
		res := f.opaqueCall(in, cc, nil, args, st)
		// a function-valued parameter is recorded under the parameter's name
		if p, ok := cc.Value.(*ssa.Parameter); ok && !st.dead() {
			f.recordCall(st, cc, res, p.Name())
		}
		// a function value loaded from a struct field is recorded under the field's name
		if ld, ok := cc.Value.(*ssa.UnOp); ok {
			if fa, ok := ld.X.(*ssa.FieldAddr); ok {
				if stt, ok := deref(fa.X.Type()).Underlying().(*types.Struct); ok && !st.dead() {
					f.recordCall(st, cc, res, stt.Field(fa.Field).Name())
				}
			}
		}
		return res
	}
	if mc, ok := cc.Value.(*ssa.MakeClosure); ok {
		cl := c.eng.closures[f.get(mc)[0].S]
		return f.inline(cl.fn, args, cl.binds, st, in)
	}
	name := callee.Name()
	if callee.Origin() != nil {
		name = callee.Origin().Name()
	}
	switch name {
	case "__forall", "__exists":
		return f.quantifier(name == "__forall", cc, st)
	case "__called", "__failed", "__result":
		k, ok := cc.Args[0].(*ssa.Const)
		if !ok {
			c.unsupported(f, name+" needs a string literal")
		}
		key := strings.TrimPrefix(name, "__") + ":" + constant.StringVal(k.Value)
		if v, ok := st.Ghost[key]; ok {
			return []Term{v}
		}
		if name == "__result" {
			// unknown unless the call was recorded on this path
			return []Term{c.fresh("ghostres", SInt)}
		}
		if st.ghostAbsentUnknown(key) {
			return []Term{st.ghostUnknownVal(c, key)}
		}
		return []Term{TFalse}
	case "__calledPrefix":
		// some function whose recorded name starts with the prefix was called
		k, ok := cc.Args[0].(*ssa.Const)
		if !ok {
			c.unsupported(f, name+" needs a string literal")
		}
		if st.GhostUnknown {
			if st.GhostLoopNames == nil || st.GhostLoopNames["*"] {
				return []Term{c.fresh("ghostunk", SBool)}
			}
			for n := range st.GhostLoopNames {
				if strings.HasPrefix(n, constant.StringVal(k.Value)) {
					return []Term{c.fresh("ghostunk", SBool)}
				}
			}
		}
		var keys []string
		for key := range st.Ghost {
			if strings.HasPrefix(key, "called:"+constant.StringVal(k.Value)) {
				keys = append(keys, key)
			}
		}
		sort.Strings(keys)
		var ds []Term
		for _, key := range keys {
			ds = append(ds, st.Ghost[key])
		}
		return []Term{Or(ds...)}
	case "__resultStr", "__resultBool":
		k, ok := cc.Args[0].(*ssa.Const)
		ki, ok2 := cc.Args[1].(*ssa.Const)
		if !ok || !ok2 {
			c.unsupported(f, name+" needs literal arguments")
		}
		key := fmt.Sprintf("res:%s:%d", constant.StringVal(k.Value), ki.Int64())
		srt := SStr
		if name == "__resultBool" {
			srt = SBool
		}
		if v, ok := st.Ghost[key]; ok && v.Sort == srt {
			return []Term{v}
		}
		v := c.fresh("ghostres", srt)
		if st.Ghost == nil {
			st.Ghost = map[string]Term{}
		}
		st.Ghost[key] = v
		return []Term{v}
	case "__decval":
		return []Term{c.decval(args[0][0])}
	case "__digits":
		return []Term{c.sdigits(args[0][0])}
	case "__ghost":
		k, ok := cc.Args[0].(*ssa.Const)
		if !ok {
			c.unsupported(f, "__ghost needs a string literal")
		}
		g := c.heapGet(st, "G|"+constant.StringVal(k.Value), ArrSort(SInt, SInt))
		return []Term{Select(g, IntLit(0))}
	case "__visited":
		// ghost: key k of map m has been yielded by the current range loop over m
		mt := cc.Args[0].Type()
		if _, ok := mt.Underlying().(*types.Map); !ok {
			c.unsupported(f, "__visited needs a map")
		}
		vk := mapKey(mt) + "#visited"
		c.eng.keySorts[vk] = mapPresentSort(mt)
		hvis := c.heapGet(st, vk, mapPresentSort(mt))
		return []Term{Select(Select(hvis, args[0][0]), args[1][0])}
	case "__canUnread":
		g := c.heapGet(st, ghostCanUnread, ArrSort(SInt, SBool))
		return []Term{Select(g, args[0][0])}
	case "__same":
		var cs []Term
		lay := layout(cc.Args[0].Type())
		for i := range args[0] {
			if lay[i].Sort == SStr {
				cs = append(cs, c.strEq(args[0][i], args[1][i]))
			} else {
				cs = append(cs, Eq(args[0][i], args[1][i]))
			}
		}
		return []Term{And(cs...)}
	case "__base":
		return []Term{args[0][0]}
	case "__freshPtr":
		// the object was allocated during this call
		return []Term{And(Not(Eq(args[0][0], IntLit(0))), Ge(args[0][0], c.alloc0))}
	case "__fresh":
		// the backing array was allocated during this call (or the slice is nil)
		return []Term{Or(Eq(args[0][0], IntLit(0)), Ge(args[0][0], c.alloc0))}
	case "__oldEnter":
		f.oldHeaps = append(f.oldHeaps, HeapSnap{st.Heap, st.Gen})
		old := f.specOld()
		st.Heap = old.Heap
		st.Gen = old.Gen
		return []Term{IntLit(0)}
	case "__old":
		top := f.oldHeaps[len(f.oldHeaps)-1]
		f.oldHeaps = f.oldHeaps[:len(f.oldHeaps)-1]
		st.Heap = top.Heap
		st.Gen = top.Gen
		return args[1]
	}
	if res, ok := f.stdModel(in, callee, cc, args, st); ok {
		return res
	}
	blk := c.eng.ld.ByFn[callee]
	if f.spec {
		return f.specCall(callee, blk, args, st, in)
	}
	if blk != nil && blk.Flags["inline"] {
		return f.inline(callee, args, nil, st, in)
	}
	if blk != nil && blk.FromRule != nil && len(blk.Post) == 0 {
		// a rule-derived block only describes how the method is checked
		// itself; it is not a contract for its callers
		blk = nil
	}
	if blk != nil && (len(blk.Pre) > 0 || len(blk.Post) > 0 || len(blk.GhostInc) > 0 || blk.Flags["lemma"] || blk.Flags["trusted"] || blk.Flags["opaque"]) && callee != f.topFrame().fn {
		return f.applyContract(in, cc, callee, blk, args, st)
	}
	if blk != nil && callee == f.topFrame().fn {
		// recursive call: use the contract (induction hypothesis) + decreases
		if blk.Flags["pure"] && !blk.Flags["lemma"] {
			if blk.Dec != nil {
				top := f.topFrame()
				d0 := c.evalSpecFn(blk.Dec.Fn, top.argVals, top.entry, snapOf(top.entry), top)[0]
				d1 := c.evalSpecFn(blk.Dec.Fn, args, st, snapOf(st), f)[0]
				c.addObl(&Obligation{Name: c.oblName(f.label, "rec-decreases"), Kind: "rec-decreases", Fn: f.label, Pos: f.posOf(in.Pos()), Text: "decreases " + blk.Dec.Text, Reach: st.Reach, Goal: And(Ge(d0, IntLit(0)), Lt(d1, d0)), Clause: blk.Dec})
			}
			return f.ufCall(callee, args, st)
		}
		return f.applyContract(in, cc, callee, blk, args, st)
	}
	if blk != nil && blk.Flags["pure"] && (c.eng.isRecursive(callee) || blk.Flags["opaque"]) {
		// recursive ghost function in ghost code: uninterpreted function with unfolding
		return f.ufCall(callee, args, st)
	}
	if blk != nil && blk.Flags["pure"] && inlinable(callee) {
		return f.inline(callee, args, nil, st, in)
	}
	if callee.Parent() != nil && inModule(callee) {
		// anonymous function called directly
		return f.inline(callee, args, nil, st, in)
	}
	if blk == nil && inModule(callee) && f.depth < 3 && smallLeaf(callee) && (samePackage(callee, f.topFrame().fn) || callFree(callee)) && !c.eng.isRecursive(callee) {
		short := callee.Name()
		if o := callee.Origin(); o != nil {
			short = o.Name() // an instance of a generic function is recorded under the generic's name
		}
		if callee.Signature.Recv() != nil {
			rt := callee.Signature.Recv().Type()
			if p, ok := rt.(*types.Pointer); ok {
				rt = p.Elem()
			}
			if n, ok := rt.(*types.Named); ok {
				short = n.Obj().Name() + "." + callee.Name()
			}
		}
		qual := short
		if callee.Pkg != nil {
			qual = callee.Pkg.Pkg.Name() + "." + short
		}
		nObl := len(c.obls)
		if !f.spec && os.Getenv("GOVC_NOINLINECS") == "" {
			// call-site obligations of the enclosing contract apply whether or not the callee is executed in place
			f.callsiteObligations(in, short, qual, nil, args, st)
		}
		if res, ok := f.tryInline(callee, args, st, in); ok {
			if !st.dead() {
				f.recordCall(st, cc, res, short)
			}
			return res
		}
		// not executed in place: the generic path below generates the call-site obligations itself
		c.obls = c.obls[:nObl]
	}
	return f.opaqueCall(in, cc, callee, args, st)
}

func inlinable(fn *ssa.Function) bool {
	if len(fn.Blocks) == 0 {
		return false
	}
	return len(findLoops(fn)) == 0
}

func (f *Frame) specOld() HeapSnap {
	fr := f
	for fr != nil {
		if fr.oldSnap != nil {
			return *fr.oldSnap
		}
		fr = fr.parent
	}
	panic(fmt.Sprintf("%s: old() used where no old state is defined", f.fn.String()))
}

// inline executes a callee body in place.
func (f *Frame) inline(fn *ssa.Function, args [][]Term, binds [][]Term, st *State, in ssa.Instruction) []Term {
	c := f.ctx
	if f.depth > 12 {
		c.unsupported(f, "inlining too deep at "+fn.String())
	}
	if len(fn.Blocks) == 0 {
		c.unsupported(f, "inlining function without body "+fn.String())
	}
	sub := &Frame{ctx: c, fn: fn, vals: map[ssa.Value][]Term{}, spec: f.spec, argVals: args, bindings: binds, depth: f.depth + 1, parent: f, block: c.eng.ld.ByFn[fn], label: f.label}
	sub.oldSnap = nil
	entry := st.clone()
	sub.run(entry)
	return f.joinReturns(sub, st, fn)
}

// joinReturns merges the return points of an inlined frame back into st.
func (f *Frame) joinReturns(sub *Frame, st *State, fn *ssa.Function) []Term {
	c := f.ctx
	if len(sub.rets) == 0 {
		st.Reach = TFalse
		return zeroLeaves(fn.Signature.Results())
	}
	var sts []*State
	var reaches []Term
	for _, r := range sub.rets {
		sts = append(sts, r.st)
		reaches = append(reaches, r.st.Reach)
	}
	merged := c.mergeStates(sts)
	*st = *merged
	n := len(sub.rets[0].vals)
	out := make([]Term, n)
	for k := 0; k < n; k++ {
		var vs []Term
		for _, r := range sub.rets {
			vs = append(vs, r.vals[k])
		}
		out[k] = c.define("ret", c.iteChain(reaches, vs))
	}
	// pointer results keep their shape when every return agrees
	if n == 1 {
		if sh, ok := c.shapes[sub.rets[0].vals[0].S]; ok {
			same := true
			for _, r := range sub.rets {
				if c.shapes[r.vals[0].S] != sh {
					same = false
				}
			}
			if same {
				c.shapes[out[0].S] = sh
			}
		}
	}
	return out
}

// evalSpecFn evaluates a specification function (clause or ghost function) on
// the given state without changing it. old gives the heap for old(...).
func (c *Ctx) evalSpecFn(fn *ssa.Function, args [][]Term, st *State, old HeapSnap, parent *Frame) []Term {
	sub := &Frame{ctx: c, fn: fn, vals: map[ssa.Value][]Term{}, spec: true, argVals: args, parent: parent, label: "spec:" + fn.Name()}
	if parent != nil {
		sub.depth = parent.depth + 1
	}
	o := old
	sub.oldSnap = &o
	want := fn.Signature.Params().Len()
	if len(args) != want {
		panic(fmt.Sprintf("evalSpecFn %s: %d arguments for %d parameters", fn.Name(), len(args), want))
	}
	entry := st.clone()
	entry.Reach = TTrue
	entry.Defers = nil
	c.specDepth++
	sub.run(entry)
	c.specDepth--
	res := sub.specResult(fn)
	c.flushFacts(st)
	return res
}

func (sub *Frame) specResult(fn *ssa.Function) []Term {
	c := sub.ctx
	if len(sub.rets) == 0 {
		// every path panics: unspecified value
		return c.freshLeaves("unspec", fn.Signature.Results())
	}
	var reaches []Term
	for _, r := range sub.rets {
		reaches = append(reaches, r.st.Reach)
	}
	n := len(sub.rets[0].vals)
	out := make([]Term, n)
	for k := 0; k < n; k++ {
		var vs []Term
		for _, r := range sub.rets {
			vs = append(vs, r.vals[k])
		}
		out[k] = c.iteChain(reaches, vs)
	}
	return out
}

// specCall: calls inside specification code.
func (f *Frame) specCall(callee *ssa.Function, blk *Block, args [][]Term, st *State, in ssa.Instruction) []Term {
	c := f.ctx
	if !inModule(callee) {
		// dependencies are not symbolically executed in specifications: an
		// external function is an uninterpreted (deterministic) function
		return f.externUF(callee, args)
	}
	if len(callee.Blocks) == 0 {
		c.unsupported(f, "specification calls a function without body: "+callee.String())
	}
	if blk != nil {
		c.used[blk] = true
	}
	if c.eng.isRecursive(callee) || (blk != nil && blk.Flags["opaque"]) {
		return f.ufCall(callee, args, st)
	}
	if !inlinable(callee) {
		c.unsupported(f, "specification calls a function with loops: "+callee.String())
	}
	sub := &Frame{ctx: c, fn: callee, vals: map[ssa.Value][]Term{}, spec: true, argVals: args, depth: f.depth + 1, parent: f, label: f.label}
	entry := st.clone()
	sub.run(entry)
	// spec frames do not change the state; results are selected by path
	if len(sub.rets) == 0 {
		return c.freshLeaves("unspec", callee.Signature.Results())
	}
	var reaches []Term
	for _, r := range sub.rets {
		reaches = append(reaches, r.st.Reach)
	}
	n := len(sub.rets[0].vals)
	out := make([]Term, n)
	for k := 0; k < n; k++ {
		var vs []Term
		for _, r := range sub.rets {
			vs = append(vs, r.vals[k])
		}
		out[k] = c.define("sp", c.iteChain(reaches, vs))
	}
	return out
}

func (e *Engine) isRecursive(fn *ssa.Function) bool {
	seen := map[*ssa.Function]bool{}
	var visit func(g *ssa.Function, depth int) bool
	visit = func(g *ssa.Function, depth int) bool {
		if depth > 6 {
			return false
		}
		for _, b := range g.Blocks {
			for _, in := range b.Instrs {
				if ci, ok := in.(ssa.CallInstruction); ok {
					callee := ci.Common().StaticCallee()
					if callee == nil {
						continue
					}
					if callee == fn {
						return true
					}
					if inModule(callee) && !seen[callee] && e.ld.ByFn[callee] != nil && e.ld.ByFn[callee].IsGhostDecl {
						seen[callee] = true
						if visit(callee, depth+1) {
							return true
						}
					}
				}
			}
		}
		return false
	}
	return visit(fn, 0)
}

// ufCall models a recursive ghost function as an uninterpreted function with
// one explicit definitional unfolding per application ("fuel 1").
// Slice parameters are passed by content (arrays), offset and length.
func (f *Frame) ufCall(fn *ssa.Function, args [][]Term, st *State) []Term {
	c := f.ctx
	name := "uf_" + smtSym(fn.Name())
	var ufArgs []Term
	var sorts []Sort
	sig := fn.Signature
	for i := 0; i < sig.Params().Len(); i++ {
		pt := sig.Params().At(i).Type()
		switch u := pt.Underlying().(type) {
		case *types.Slice:
			lay := layout(u.Elem())
			for k := range lay {
				arr := c.arrContents(st, u.Elem(), k, args[i][0])
				ufArgs = append(ufArgs, arr)
				sorts = append(sorts, arr.Sort)
			}
			ufArgs = append(ufArgs, args[i][1], args[i][2])
			sorts = append(sorts, SInt, SInt)
		case *types.Pointer, *types.Map, *types.Interface:
			c.unsupported(f, "recursive ghost function with pointer/map/interface parameter: "+fn.String())
		default:
			for k, l := range layout(pt) {
				ufArgs = append(ufArgs, args[i][k])
				sorts = append(sorts, l.Sort)
			}
		}
	}
	// Inside a quantifier the application is used as a trigger. Solvers expand
	// define-fun macros and reject boolean connectives inside patterns, so
	// ground arguments that are not plain constants are named by declared
	// constants (with a defining equation) first.
	{
		anyQ := false
		for _, a := range ufArgs {
			for _, q := range c.quantVars {
				if strings.Contains(a.S, q) {
					anyQ = true
				}
			}
		}
		if anyQ {
			for i, a := range ufArgs {
				ufArgs[i] = c.atomFor(a)
			}
		}
	}
	res := layout(sig.Results())
	out := make([]Term, len(res))
	for k, l := range res {
		n := name
		if len(res) > 1 {
			n = fmt.Sprintf("%s_%d", name, k)
		}
		if !c.declared[n] {
			c.declared[n] = true
			var ss []string
			for _, s := range sorts {
				ss = append(ss, string(s))
			}
			c.emit(fmt.Sprintf("(declare-fun %s (%s) %s)", n, strings.Join(ss, " "), l.Sort))
		}
		out[k] = app(l.Sort, n, ufArgs...)
	}
	// definitional instance
	key := out[0].S
	inQuant := false
	for _, q := range c.quantVars {
		if strings.Contains(key, q) {
			inQuant = true
		}
	}
	addDef := func(t Term, pat Term) {
		// definitional facts about a closed application are global truths
		if inQuant {
			c.addFact(t, pat)
		} else {
			c.assert(t)
		}
	}
	if (inQuant || !c.unfolded[key]) && c.unfoldDepth < c.fuelFor(fn) {
		c.unfolded[key] = true
		c.unfoldDepth++
		sub := &Frame{ctx: c, fn: fn, vals: map[ssa.Value][]Term{}, spec: true, argVals: args, depth: f.depth + 1, parent: f, label: f.label}
		entry := st.clone()
		entry.Reach = TTrue
		sub.run(entry)
		c.unfoldDepth--
		if len(sub.rets) > 0 {
			body := sub.specResult(fn)
			var eqs []Term
			for k := range out {
				eqs = append(eqs, Eq(out[k], body[k]))
			}
			addDef(And(eqs...), out[0])
		}
		// result type invariant
		addDef(typeInv(sig.Results(), out), out[0])
	} else if inQuant || !c.unfolded[key+"#ti"] {
		c.unfolded[key+"#ti"] = true
		addDef(typeInv(sig.Results(), out), out[0])
	}
	return out
}

func (c *Ctx) fuelFor(fn *ssa.Function) int {
	return c.fuel
}

// quantifier translates __forall / __exists over a closure.
func (f *Frame) quantifier(forall bool, cc *ssa.CallCommon, st *State) []Term {
	c := f.ctx
	fv := f.get(cc.Args[0])
	cl, ok := c.eng.closures[fv[0].S]
	if !ok {
		c.unsupported(f, "quantifier over a non-literal function")
	}
	pt := cl.fn.Signature.Params().At(0).Type()
	lay := layout(pt)
	if len(lay) != 1 {
		c.unsupported(f, "quantified variable of composite type")
	}
	c.n++
	qv := Term{fmt.Sprintf("qv!%d", c.n), lay[0].Sort}
	c.quantVars = append(c.quantVars, qv.S)
	savedPending := c.pending
	c.pending = nil
	sub := &Frame{ctx: c, fn: cl.fn, vals: map[ssa.Value][]Term{}, spec: true, argVals: [][]Term{{qv}}, bindings: cl.binds, depth: f.depth + 1, parent: f, label: f.label}
	entry := st.clone()
	entry.Reach = TTrue
	sub.run(entry)
	body := sub.specResult(cl.fn)[0]
	inner := c.pending
	c.pending = savedPending
	c.quantVars = c.quantVars[:len(c.quantVars)-1]
	rng := typeInv(pt, []Term{qv})
	// side facts that mention the bound variable are quantified themselves
	for _, pf := range inner {
		if strings.Contains(pf.t.S, qv.S) {
			pf.vars = append(append([]Term{}, pf.vars...), qv)
		}
		open := false
		for _, q := range c.quantVars {
			if strings.Contains(pf.t.S, q) {
				open = true
			}
		}
		if open || len(pf.vars) == 0 {
			// still under an enclosing quantifier whose variable it mentions
			// (one quantifier over all variables is emitted at the outermost
			// level, so that the trigger binds them together), or ground
			c.pending = append(c.pending, pf)
			continue
		}
		usable := len(pf.pattern) > 0
		for _, v := range pf.vars {
			found := false
			for _, p := range pf.pattern {
				if strings.Contains(p.S, v.S) {
					found = true
				}
			}
			if !found {
				usable = false
			}
		}
		if usable {
			var pats []Term
			for _, p := range pf.pattern {
				pats = append(pats, c.cleanPattern(p))
			}
			c.addFact(Forall(pf.vars, pf.t, pats))
		} else {
			c.addFact(Forall(pf.vars, pf.t))
		}
	}
	var res Term
	if forall {
		res = Forall([]Term{qv}, Implies(rng, body))
	} else {
		res = Exists([]Term{qv}, And(rng, body))
	}
	return []Term{res}
}

// applyContract replaces a call by its contract.
func (f *Frame) applyContract(in ssa.Instruction, cc *ssa.CallCommon, callee *ssa.Function, blk *Block, args [][]Term, st *State) []Term {
	c := f.ctx
	pos := in.Pos()
	c.used[blk] = true
	for _, cl := range blk.Pre {
		pa := args
		if cl.RecvOnly {
			// rule-level requires are object invariants assumed for every
			// method of the type (listed in the trusted base), not call-site
			// preconditions
			c.note("assumed", "object invariant assumed at method entry: "+cl.Text+" ("+blk.RecvType+")")
			continue
		}
		t := c.evalSpecFn(cl.Fn, pa, st, snapOf(st), f)[0]
		t = c.define("pre", t)
		c.addObl(&Obligation{Name: c.oblName(f.label, "pre@"+blk.QualName()), Kind: "pre@call", Fn: f.label, Pos: f.posOf(pos), Text: "requires " + cl.Text + "  [at call of " + blk.QualName() + "]", Reach: st.Reach, Goal: t, Clause: cl})
		if !blk.Flags["hide-requires"] {
			// (a lemma marked hide-requires leaves only its conclusion in the
			// caller's context: the stepping stones it needed are proved, not kept)
			st.assume(c, t)
		}
	}
	f.callsiteObligations(in, callee.Name(), blk.QualName(), nil, args, st)
	// a callee that panics only under a stated condition: at this call the
	// condition must be excluded (or be covered by the caller's own
	// "panics only if" clause); afterwards the call has returned, so the
	// condition did not hold
	if len(blk.PanicsIf) > 0 && !f.spec {
		var conds []Term
		for _, cl := range blk.PanicsIf {
			conds = append(conds, c.evalSpecFn(cl.Fn, args, st, snapOf(st), f)[0])
		}
		mayPanic := c.define("maypanic", Or(conds...))
		goal := Not(mayPanic)
		text := "callee " + blk.QualName() + " panics only if " + blk.PanicsIf[0].Text + ": excluded at this call"
		top := f.topFrame()
		if top.block != nil && len(top.block.PanicsIf) > 0 {
			var cs []Term
			for _, cl := range top.block.PanicsIf {
				cs = append(cs, c.evalSpecFn(cl.Fn, top.argVals, top.entry, snapOf(top.entry), top)[0])
			}
			goal = Or(Not(mayPanic), Or(cs...))
			text += " (or covered by the caller's own panics-only-if)"
		}
		if !(top.block != nil && top.block.Flags["panics-assumed"]) {
			c.addObl(&Obligation{Name: c.oblName(f.label, "panic-unreachable"), Kind: "panic-unreachable", Fn: f.label, Pos: f.posOf(pos), Text: text, Reach: st.Reach, Goal: goal})
		}
		st.assume(c, Not(mayPanic))
	}
	// recursion: the callee's measure must be below the measure of the
	// function under verification whenever the call can lead back to it
	// (direct, mutual, or through a closure of that function)
	f.recursionObligation(in, callee, blk, args, st)
	old := snapOf(st)
	f.pointwise = nil
	if len(blk.Modifies) > 0 {
		// frame clause: object fields of the named pointer parameters' types
		// change only at those objects
		f.pointwise = f.frameRefs(blk, callee.Params, args, st)
		if blk.Flags["trusted"] {
			c.note("assumed", "assumed frame of "+blk.QualName()+": modifies only "+strings.Join(blk.Modifies, ", "))
		}
	}
	// ghost counter events of the callee (definitional): conditions are read in the pre-state
	type ginc struct {
		name string
		inc  Term
		old  Term
	}
	var gincs []ginc
	for _, gcl := range blk.GhostInc {
		cond := c.evalSpecFn(gcl.Fn, args, st, snapOf(st), f)[0]
		key := "G|" + gcl.Callee
		g := c.heapGet(st, key, ArrSort(SInt, SInt))
		gincs = append(gincs, ginc{key, Ite(cond, IntLit(1), IntLit(0)), Select(g, IntLit(0))})
	}
	f.freshArraysOnly = blk.Flags["fresh-arrays"]
	f.preCallAlloc = st.Alloc
	f.havocFor(callee, blk, cc, st)
	f.pointwise = nil
	f.freshArraysOnly = false
	for _, gi := range gincs {
		g := c.heapGet(st, gi.name, ArrSort(SInt, SInt))
		c.setHeap(st, gi.name, c.define("ghost", Store(g, IntLit(0), Add(gi.old, gi.inc))))
	}
	res := f.freshResults(cc, st, callee.Name())
	var resVals [][]Term
	rt := cc.Signature().Results()
	off := 0
	for i := 0; i < rt.Len(); i++ {
		n := len(layout(rt.At(i).Type()))
		resVals = append(resVals, res[off:off+n])
		off += n
	}
	all := append(append([][]Term{}, args...), resVals...)
	// ghost call records in a callee's postcondition speak about the callee's
	// own calls, which the caller cannot see: they are unknown here
	savedGhost, savedUnk, savedNames, savedMemo := st.Ghost, st.GhostUnknown, st.GhostLoopNames, st.GhostMemo
	st.Ghost, st.GhostUnknown, st.GhostLoopNames, st.GhostMemo = map[string]Term{}, true, nil, map[string]Term{}
	for _, cl := range blk.Post {
		pa := all
		if cl.RecvOnly {
			pa = all[:1]
		}
		if cl.Assumed {
			c.note("assumed", "assumed postcondition of "+blk.QualName()+": "+cl.Text)
		}
		t := c.evalSpecFn(cl.Fn, pa, st, old, f)[0]
		st.assume(c, t)
	}
	st.Ghost, st.GhostUnknown, st.GhostLoopNames, st.GhostMemo = savedGhost, savedUnk, savedNames, savedMemo
	if blk.Flags["trusted"] || blk.Flags["assume-contract"] {
		c.note("assumed", "assumed contract of "+blk.QualName())
	}
	sn := blk.FuncName
	if blk.RecvType != "" {
		sn = strings.TrimPrefix(blk.RecvType, "*") + "." + blk.FuncName
	}
	f.recordCall(st, cc, res, sn)
	return res
}

// havocFor havocs what a callee may modify.
func (f *Frame) havocFor(callee *ssa.Function, blk *Block, cc *ssa.CallCommon, st *State) {
	c := f.ctx
	f.setPassedRefs(cc)
	if blk != nil && (blk.Flags["pure"] || blk.Flags["lemma"]) {
		return
	}
	var ms *modSet
	if callee != nil && len(callee.Blocks) > 0 && inModule(callee) {
		ms = &modSet{keys: map[string]bool{}}
		ms.add(c.eng.modset(callee))
		for _, fa := range c.eng.funcArgCallees(cc) {
			ms.add(c.eng.modset(fa))
		}
	} else {
		ms = &modSet{keys: map[string]bool{}}
		d := &modSet{keys: ms.keys}
		if ci, ok := interface{}(cc).(*ssa.CallCommon); ok {
			_ = ci
		}
		// external: argument-reachable memory and module callbacks
		fake := &ssa.Call{Call: *cc}
		c.eng.directWrites(f.fn, fake, d)
		for _, cb := range c.eng.callees(fake) {
			ms.add(c.eng.modset(cb))
		}
	}
	f.havocKeys(ms, st)
	f.havocInteriorArgs(ms, cc, st)
}

// havocInteriorArgs: a pointer argument that addresses a field or an element
// (an interior pointer) names memory that lives under the key of the
// containing object, not under the key of the pointee type the callee's
// may-write set speaks about; if the callee may write through pointers of
// that type, the addressed location gets an arbitrary value (the callee's
// postconditions, which read *p through the same shape, constrain it).
func (f *Frame) havocInteriorArgs(ms *modSet, cc *ssa.CallCommon, st *State) {
	c := f.ctx
	vals := append([]ssa.Value{}, cc.Args...)
	if cc.IsInvoke() {
		vals = append([]ssa.Value{cc.Value}, vals...)
	}
	for _, a := range vals {
		if _, ok := a.Type().Underlying().(*types.Pointer); !ok {
			continue
		}
		ts := f.get(a)
		sh, ok := c.shapes[ts[0].S]
		if !ok || sh.Kind == pLocal {
			continue
		}
		may := ms.all
		for k := range layout(sh.Typ) {
			if ms.keys[objKey(sh.Typ, k)] {
				may = true
			}
		}
		if !may {
			continue
		}
		nv := c.freshLeaves("ipw", sh.Typ)
		c.store(st, sh, nv)
		st.assume(c, typeInv(sh.Typ, nv))
		st.assume(c, refsBelow(sh.Typ, nv, st.Alloc))
	}
}

func (f *Frame) havocKeys(ms *modSet, st *State) {
	c := f.ctx
	// Local objects of the calling function whose address is not handed to
	// the callee keep their contents (assumption: callees do not retain
	// pointers to their caller's locals beyond the call).
	type keep struct {
		key string
		ref Term
		val Term
	}
	var keeps []keep
	if !ms.all {
		for fr := f; fr != nil; fr = fr.parent {
			for _, lo := range fr.localObjs {
				if f.passedRefs != nil && f.passedRefs[lo.ref.S] {
					continue
				}
				lay := layout(lo.typ)
				for k := range lay {
					key := objKey(lo.typ, k)
					if !ms.keys[key] {
						continue
					}
					h := c.heapGet(st, key, c.heapSort(key, lay[k]))
					keeps = append(keeps, keep{key, lo.ref, Select(h, lo.ref)})
				}
			}
		}
	}
	defer func() {
		if len(keeps) > 0 {
			c.note("assumed", "callees do not retain pointers to their caller's local variables beyond the call")
		}
		for _, kp := range keeps {
			h := st.Heap[kp.key]
			c.setHeap(st, kp.key, c.define("heap", Store(h, kp.ref, kp.val)))
		}
	}()
	if ms.all {
		c.havocAllHeap(st)
	}
	var ks []string
	for k := range ms.keys {
		ks = append(ks, k)
	}
	sort.Strings(ks)
	if len(ks) > 0 || ms.all {
		na := c.fresh("alloc", SInt)
		c.assert(Ge(na, st.Alloc))
		st.Alloc = na
	}
	for _, k := range ks {
		srt, ok := c.eng.keySorts[k]
		if !ok {
			continue
		}
		pointwise := false
		for prefix, refs := range f.pointwise {
			if strings.HasPrefix(k, prefix) {
				cur := c.heapGet(st, k, srt)
				for _, r := range refs {
					cur = Store(cur, r, c.fresh("hvp", elemSort(srt)))
				}
				c.setHeap(st, k, c.define("heap", cur))
				pointwise = true
			}
		}
		if pointwise {
			continue
		}
		if f.freshArraysOnly && strings.HasPrefix(k, "A|") {
			// frame clause "fresh-arrays": existing backing arrays keep their contents
			cur := c.heapGet(st, k, srt)
			nv := c.fresh("hvf", srt)
			c.n++
			b := Term{fmt.Sprintf("b!%d", c.n), SInt}
			c.assertDef(nv, Forall([]Term{b}, Implies(Lt(b, f.preCallAlloc), Eq(Select(nv, b), Select(cur, b))), []Term{Select(nv, b)}))
			c.setHeap(st, k, nv)
			continue
		}
		c.setHeap(st, k, c.fresh("hv", srt))
	}
}

// escapeArgs: local cells captured by closures handed to goroutines etc.
func (f *Frame) escapeArgs(cc *ssa.CallCommon, st *State) {}

// callsiteObligations: callsite clauses of the unit's contract block.
func (f *Frame) callsiteObligations(in ssa.Instruction, shortName, qualName string, iface types.Type, args [][]Term, st *State) {
	c := f.ctx
	top := f.topFrame()
	if top.block == nil || f.spec {
		return
	}
	for _, cl := range top.block.Callsite {
		if !calleeMatches(cl.Callee, shortName, qualName) {
			continue
		}
		a := append([][]Term{}, top.argVals...)
		if cl.RecvOnly {
			a = a[:1]
		}
		if cl.NParams > 0 {
			if cl.NParams != len(args) {
				panic(unsupportedErr{fmt.Sprintf("contract-target-changed: %s:%d: callsite clause binds %d callee arguments (receiver first), call has %d", shortPos(cl.File), cl.Line, cl.NParams, len(args))})
			}
			a = append(a, args...)
		}
		t := c.evalSpecFn(cl.Fn, a, st, snapOf(top.entry), f)[0]
		c.addObl(&Obligation{Name: c.oblName(f.label, "callsite:"+cl.Callee), Kind: "callsite", Fn: f.label, Pos: f.posOf(in.Pos()), Text: "callsite " + cl.Callee + " requires " + cl.Text, Reach: st.Reach, Goal: t, Clause: cl})
		st.assume(c, t)
	}
}

func calleeMatches(pat, short, qual string) bool {
	if pat == short || pat == qual {
		return true
	}
	return strings.HasSuffix(qual, "."+pat)
}

// opaqueCall: a callee without contract: fresh results, computed frame.
func (f *Frame) opaqueCall(in ssa.Instruction, cc *ssa.CallCommon, callee *ssa.Function, args [][]Term, st *State) []Term {
	c := f.ctx
	name := "dyn"
	qual := "dynamic-call"
	if callee != nil {
		name = callee.Name()
		qual = callee.String()
		short := callee.Name()
		if o := callee.Origin(); o != nil {
			short = o.Name() // an instance of a generic function is recorded under the generic's name
		}
		if callee.Signature.Recv() != nil {
			rt := callee.Signature.Recv().Type()
			if p, ok := rt.(*types.Pointer); ok {
				rt = p.Elem()
			}
			if n, ok := rt.(*types.Named); ok {
				short = n.Obj().Name() + "." + callee.Name()
				if n.Obj().Pkg() != nil {
					qual = n.Obj().Pkg().Name() + "." + short
				}
			}
		} else if callee.Pkg != nil {
			qual = callee.Pkg.Pkg.Name() + "." + callee.Name()
		}
		f.callsiteObligations(in, short, qual, nil, args, st)
		f.recursionObligation(in, callee, c.eng.ld.ByFn[callee], args, st)
	}
	// interior pointers passed as arguments: copy-in / copy-out is subsumed by
	// the havoc of the keys they address (directWrites adds them).
	if callee != nil && inModule(callee) && len(callee.Blocks) > 0 {
		ms := &modSet{keys: map[string]bool{}}
		ms.add(c.eng.modset(callee))
		for _, fa := range c.eng.funcArgCallees(cc) {
			ms.add(c.eng.modset(fa))
		}
		fake := &ssa.Call{Call: *cc}
		c.eng.directWrites(f.fn, fake, ms)
		f.setPassedRefs(cc)
		f.havocKeys(ms, st)
	} else {
		f.havocFor(callee, nil, cc, st)
	}
	f.havocEscapedCells(cc, st)
	if callee != nil && neverReturns(callee) {
		st.Reach = TFalse
		return zeroLeaves(cc.Signature().Results())
	}
	res := f.freshResults(cc, st, name)
	if callee != nil {
		short := callee.Name()
		if o := callee.Origin(); o != nil {
			short = o.Name() // an instance of a generic function is recorded under the generic's name
		}
		if callee.Signature.Recv() != nil {
			rt := callee.Signature.Recv().Type()
			if p, ok := rt.(*types.Pointer); ok {
				rt = p.Elem()
			}
			if n, ok := rt.(*types.Named); ok {
				short = n.Obj().Name() + "." + callee.Name()
			}
		}
		f.recordCall(st, cc, res, short)
	}
	_ = qual
	return res
}

func neverReturns(fn *ssa.Function) bool {
	switch fn.String() {
	case "os.Exit", "log.Fatal", "log.Fatalf", "log.Fatalln", "runtime.Goexit":
		return true
	}
	return false
}

// havocEscapedCells: closures passed as arguments may write the local cells
// they capture (assumption: they are not retained beyond the call).
func (f *Frame) havocEscapedCells(cc *ssa.CallCommon, st *State) {
	c := f.ctx
	for _, a := range cc.Args {
		ts := f.get(a)
		if len(ts) != 1 {
			continue
		}
		cl, ok := c.eng.closures[ts[0].S]
		if !ok {
			continue
		}
		c.note("assumed", "closures passed as call arguments are not retained beyond the call")
		for _, b := range cl.binds {
			if len(b) != 1 {
				continue
			}
			if sh, ok := c.shapes[b[0].S]; ok && sh.Kind == pLocal {
				st.Cells[sh.Cell] = c.freshLeaves("cbcell_"+sh.Cell.Name, sh.Cell.Typ)
				st.assume(c, typeInv(sh.Cell.Typ, st.Cells[sh.Cell]))
			}
		}
	}
}

// invoke: interface method call.
func (f *Frame) invoke(in ssa.Instruction, cc *ssa.CallCommon, st *State) []Term {
	c := f.ctx
	recv := f.get(cc.Value)
	args := [][]Term{recv}
	args = append(args, argLeaves(f, cc)...)
	f.check(st, "nil", in.Pos(), "method call on nil interface", Not(Eq(recv[0], IntLit(0))))
	it := cc.Value.Type()
	short := cc.Method.Name()
	qual := short
	if n, ok := it.(*types.Named); ok {
		short = n.Obj().Name() + "." + cc.Method.Name()
		qual = short
		if n.Obj().Pkg() != nil {
			qual = n.Obj().Pkg().Name() + "." + short
		}
	}
	if f.spec {
		// specification code may call interface methods of in-repo types by case split
		impls := c.eng.implementations(it, cc.Method)
		if len(impls) > 0 {
			return f.invokeSplit(impls, cc, recv, args, st, in)
		}
		c.unsupported(f, "interface call in specification: "+qual)
	}
	f.callsiteObligations(in, short, qual, it, args, st)
	// interface-level contract?
	if blk := c.eng.ifaceBlock(it, cc.Method.Name()); blk != nil {
		return f.applyIfaceContract(in, cc, blk, args, st)
	}
	if cc.Method.Name() == "Error" && cc.Signature().Results().Len() == 1 {
		return f.freshResults(cc, st, "Error")
	}
	ms := &modSet{keys: map[string]bool{}}
	impls := c.eng.implementations(it, cc.Method)
	for _, impl := range impls {
		ms.add(c.eng.modset(impl))
	}
	// contracts of the in-repo implementations: their preconditions are
	// obligations and their postconditions hold, each under the condition
	// that the dynamic type is that implementation's receiver type
	type implC struct {
		impl *ssa.Function
		blk  *Block
		cond Term
		args [][]Term
	}
	var ics []implC
	for _, impl := range impls {
		blk := c.eng.ld.ByFn[impl]
		if blk == nil || blk.FromRule != nil || blk.IsRule || (len(blk.Pre) == 0 && len(blk.Post) == 0) {
			continue
		}
		rt := impl.Signature.Recv().Type()
		cond := Eq(recv[0], c.typeID(rt))
		a := append([][]Term{c.unbox(rt, recv[1])}, args[1:]...)
		ics = append(ics, implC{impl, blk, cond, a})
		c.used[blk] = true
		for _, cl := range blk.Pre {
			t := c.evalSpecFn(cl.Fn, a, st, snapOf(st), f)[0]
			c.addObl(&Obligation{Name: c.oblName(f.label, "pre@"+blk.QualName()), Kind: "pre@call", Fn: f.label, Pos: f.posOf(in.Pos()), Text: "requires " + cl.Text + "  [at interface call, dynamic type " + rt.String() + "]", Reach: st.Reach, Goal: Implies(cond, t), Clause: cl})
		}
	}
	old := snapOf(st)
	fake := &ssa.Call{Call: *cc}
	c.eng.directWrites(f.fn, fake, ms)
	f.setPassedRefs(cc)
	f.havocKeys(ms, st)
	f.havocEscapedCells(cc, st)
	res := f.freshResults(cc, st, cc.Method.Name())
	for _, ic := range ics {
		var resVals [][]Term
		rt := cc.Signature().Results()
		off := 0
		for i := 0; i < rt.Len(); i++ {
			n := len(layout(rt.At(i).Type()))
			resVals = append(resVals, res[off:off+n])
			off += n
		}
		all := append(append([][]Term{}, ic.args...), resVals...)
		savedGhost, savedUnk, savedNames, savedMemo := st.Ghost, st.GhostUnknown, st.GhostLoopNames, st.GhostMemo
		st.Ghost, st.GhostUnknown, st.GhostLoopNames, st.GhostMemo = map[string]Term{}, true, nil, map[string]Term{}
		for _, cl := range ic.blk.Post {
			pa := all
			if cl.RecvOnly {
				pa = all[:1]
			}
			t := c.evalSpecFn(cl.Fn, pa, st, old, f)[0]
			st.assume(c, Implies(ic.cond, t))
		}
		st.Ghost, st.GhostUnknown, st.GhostLoopNames, st.GhostMemo = savedGhost, savedUnk, savedNames, savedMemo
		if ic.blk.Flags["trusted"] || ic.blk.Flags["assume-contract"] {
			c.note("assumed", "assumed contract of "+ic.blk.QualName())
		}
	}
	f.recordCall(st, cc, res, short, qual)
	return res
}

// recordCall maintains the ghost call records read by __called / __failed.
func (f *Frame) recordCall(st *State, cc *ssa.CallCommon, res []Term, names ...string) {
	if f.spec {
		return
	}
	if st.Ghost == nil {
		st.Ghost = map[string]Term{}
	}
	failed := TFalse
	rt := cc.Signature().Results()
	if rt.Len() > 0 {
		last := rt.At(rt.Len() - 1).Type()
		if types.IsInterface(last) && last.String() == "error" {
			failed = Not(Eq(res[len(res)-2], IntLit(0)))
		}
	}
	for _, n := range names {
		st.Ghost["called:"+n] = TTrue
		st.Ghost["failed:"+n] = failed
		if len(res) >= 1 && res[0].Sort == SInt {
			st.Ghost["result:"+n] = res[0]
		}
		// what the call left behind its pointer arguments to strings and
		// booleans ("out parameters"), under position 100 + argument index
		// (the receiver of a method is argument 0)
		for i, a := range cc.Args {
			pt, ok := a.Type().Underlying().(*types.Pointer)
			if !ok {
				continue
			}
			bt, ok := pt.Elem().Underlying().(*types.Basic)
			if !ok || (bt.Kind() != types.String && bt.Kind() != types.Bool) {
				continue
			}
			pv := f.get(a)
			if len(pv) != 1 {
				continue
			}
			vals := f.ctx.load(st, f.ctx.shapeOf(pv[0], a.Type()))
			if len(vals) == 1 && (vals[0].Sort == SStr || vals[0].Sort == SBool) {
				st.Ghost[fmt.Sprintf("res:%s:%d", n, 100+i)] = vals[0]
			}
		}
		// single-leaf results by position (strings, booleans)
		off := 0
		for i := 0; i < rt.Len(); i++ {
			nl := len(layout(rt.At(i).Type()))
			if nl == 1 && off < len(res) && (res[off].Sort == SStr || res[off].Sort == SBool) {
				st.Ghost[fmt.Sprintf("res:%s:%d", n, i)] = res[off]
			}
			off += nl
		}
	}
}

func (e *Engine) ifaceBlock(it types.Type, method string) *Block { return nil }

func (f *Frame) applyIfaceContract(in ssa.Instruction, cc *ssa.CallCommon, blk *Block, args [][]Term, st *State) []Term {
	return nil
}

// invokeSplit evaluates an interface call in specification code by case split
// on the dynamic type over the in-repo implementations.
func (f *Frame) invokeSplit(impls []*ssa.Function, cc *ssa.CallCommon, recv []Term, args [][]Term, st *State, in ssa.Instruction) []Term {
	c := f.ctx
	res := c.freshLeaves("ifres", cc.Signature().Results())
	for _, impl := range impls {
		rt := impl.Signature.Recv().Type()
		cond := Eq(recv[0], c.typeID(rt))
		a := append([][]Term{c.unbox(rt, recv[1])}, args[1:]...)
		blk := c.eng.ld.ByFn[impl]
		v := f.specCall(impl, blk, a, st, in)
		var eqs []Term
		for k := range res {
			eqs = append(eqs, Eq(res[k], v[k]))
		}
		c.addFact(Implies(cond, And(eqs...)))
	}
	return res
}

// ---- builtins ----

func (f *Frame) builtin(in ssa.Instruction, b *ssa.Builtin, cc *ssa.CallCommon, st *State) []Term {
	c := f.ctx
	args := argLeaves(f, cc)
	switch b.Name() {
	case "len":
		switch t := cc.Args[0].Type().Underlying().(type) {
		case *types.Slice:
			return []Term{args[0][2]}
		case *types.Basic:
			return []Term{app(SInt, "slen", args[0][0])}
		case *types.Map:
			n := c.fresh("maplen", SInt)
			st.assume(c, Ge(n, IntLit(0)))
			st.assume(c, Implies(Eq(args[0][0], IntLit(0)), Eq(n, IntLit(0))))
			return []Term{n}
		case *types.Array:
			return []Term{IntLit(t.Len())}
		case *types.Pointer:
			return []Term{IntLit(t.Elem().Underlying().(*types.Array).Len())}
		case *types.Chan:
			n := c.fresh("chanlen", SInt)
			st.assume(c, Ge(n, IntLit(0)))
			return []Term{n}
		}
	case "cap":
		switch t := cc.Args[0].Type().Underlying().(type) {
		case *types.Slice:
			return []Term{args[0][3]}
		case *types.Array:
			return []Term{IntLit(t.Len())}
		}
	case "append":
		return f.builtinAppend(in, cc, args, st)
	case "copy":
		return f.builtinCopy(in, cc, args, st)
	case "delete":
		f.mapDelete(cc.Args[0].Type(), args[0][0], args[1], st)
		return nil
	case "panic":
		st.Reach = TFalse
		return nil
	case "print", "println":
		return nil
	case "min", "max":
		if len(args) == 2 && len(args[0]) == 1 && args[0][0].Sort == SInt {
			if b.Name() == "min" {
				return []Term{Ite(Le(args[0][0], args[1][0]), args[0][0], args[1][0])}
			}
			return []Term{Ite(Ge(args[0][0], args[1][0]), args[0][0], args[1][0])}
		}
	case "recover":
		return []Term{IntLit(0), IntLit(0)}
	case "close":
		return nil
	}
	c.unsupported(f, "builtin "+b.Name())
	return nil
}

// builtinAppend models append(s, t...) exactly: in place when capacity
// suffices (visible through aliases of the backing array), otherwise a fresh
// backing array holding the old elements followed by the new ones.
func (f *Frame) builtinAppend(in ssa.Instruction, cc *ssa.CallCommon, args [][]Term, st *State) []Term {
	c := f.ctx
	s := args[0]
	st0 := cc.Args[0].Type().Underlying().(*types.Slice)
	el := st0.Elem()
	lay := layout(el)
	var tBase, tOff, tLen Term
	fromString := false
	var strT Term
	switch cc.Args[1].Type().Underlying().(type) {
	case *types.Basic:
		fromString = true
		strT = args[1][0]
		tLen = app(SInt, "slen", strT)
	default:
		tBase, tOff, tLen = args[1][0], args[1][1], args[1][2]
	}
	// call-site clauses may constrain what is appended:  callsite append(s []T, elems []T) requires ...
	if !fromString && !f.spec {
		f.callsiteObligations(in, "append", "append", nil, [][]Term{s, args[1]}, st)
	}
	newLen := c.define("applen", Add(s[2], tLen))
	fits := Le(newLen, s[3])
	// fresh backing array for the reallocating case
	fresh := c.allocRef(st)
	newCap := c.fresh("appcap", SInt)
	st.assume(c, And(Ge(newCap, newLen), Le(newCap, Term{"4611686018427387904", SInt})))
	resBase := c.define("appbase", Ite(fits, s[0], fresh))
	resOff := c.define("appoff", Ite(fits, s[1], IntLit(0)))
	resCap := c.define("appcap", Ite(fits, s[3], newCap))
	// appending nothing to a nil slice yields nil (len 0); base 0 is fine then
	for k := range lay {
		key := arrKey(el, k)
		h := c.heapGet(st, key, c.heapSort(key, lay[k]))
		srcOld := c.define("appsrc", Select(h, s[0]))
		asort := ArrSort(SInt, lay[k].Sort)
		tail := func(j Term) Term { // element number j-len(s) of t
			if fromString {
				return app(SInt, "sat", strT, Sub(j, s[2]))
			}
			return Select(Select(h, tBase), Add(tOff, Sub(j, s[2])))
		}
		// in place: a complete definition of the new contents of the old backing array
		naFit := c.fresh("appfit", asort)
		c.n++
		i := Term{fmt.Sprintf("i!%d", c.n), SInt}
		inWin := And(fits, Ge(i, Add(s[1], s[2])), Lt(i, Add(s[1], newLen)))
		c.assertDef(naFit, Forall([]Term{i}, Eq(Select(naFit, i), Ite(inWin, tail(Sub(i, s[1])), Select(srcOld, i))), []Term{Select(naFit, i)}, []Term{Select(srcOld, i)}))
		{
			// ground instance at the first appended position (gives triggers a
			// term for "the element just appended")
			i0 := Add(s[1], s[2])
			inWin0 := And(fits, Ge(i0, Add(s[1], s[2])), Lt(i0, Add(s[1], newLen)))
			c.assertDef(naFit, Eq(Select(naFit, i0), Ite(inWin0, tail(Sub(i0, s[1])), Select(srcOld, i0))))
		}
		// reallocation: old elements then the appended ones, from index 0
		naNew := c.fresh("appnew", asort)
		c.n++
		j := Term{fmt.Sprintf("j!%d", c.n), SInt}
		c.assertDef(naNew, Forall([]Term{j}, Implies(And(Ge(j, IntLit(0)), Lt(j, newLen)), Eq(Select(naNew, j), Ite(Lt(j, s[2]), Select(srcOld, Add(s[1], j)), tail(j)))), []Term{Select(naNew, j)}))
		c.assertDef(naNew, Implies(And(Ge(s[2], IntLit(0)), Lt(s[2], newLen)), Eq(Select(naNew, s[2]), Ite(Lt(s[2], s[2]), Select(srcOld, Add(s[1], s[2])), tail(s[2])))))
		// no array-level ite: when the append reallocates, naFit equals the old
		// contents pointwise and the fresh array is written as well
		{
			// old elements seen from the old array (trigger on reads of the old contents)
			c.n++
			i2 := Term{fmt.Sprintf("i!%d", c.n), SInt}
			c.assertDef(naNew, Forall([]Term{i2}, Implies(And(Ge(i2, s[1]), Lt(i2, Add(s[1], s[2]))), Eq(Select(naNew, Sub(i2, s[1])), Select(srcOld, i2))), []Term{Select(srcOld, i2)}))
		}
		nh := c.define("heap", Store(Store(h, s[0], naFit), fresh, naNew))
		c.setHeap(st, key, nh)
		// which of the two arrays the result slice uses (derived; lets reads
		// through the result's view and reads of naFit/naNew share terms)
		c.assertDef(naFit, Implies(fits, Eq(Select(nh, resBase), naFit)))
		c.assertDef(naNew, Implies(Not(fits), Eq(Select(nh, resBase), naNew)))
		// derived ground fact, stated the way a specification reads the result
		// (through the result slice's view): the element at the old length is
		// the first appended one. It follows from the two definitions above
		// and gives quantifier triggers a term for "the element just appended".
		first := Select(c.shiftView(Select(nh, resBase), resOff), s[2])
		c.assertDef(naFit, Implies(Ge(tLen, IntLit(1)), Eq(first, tail(s[2]))))
	}
	return []Term{resBase, resOff, newLen, resCap}
}

func (f *Frame) builtinCopy(in ssa.Instruction, cc *ssa.CallCommon, args [][]Term, st *State) []Term {
	c := f.ctx
	d := args[0]
	el := cc.Args[0].Type().Underlying().(*types.Slice).Elem()
	lay := layout(el)
	var n Term
	fromString := false
	var sBase, sOff Term
	var strT Term
	if _, ok := cc.Args[1].Type().Underlying().(*types.Basic); ok {
		fromString = true
		strT = args[1][0]
		sl := app(SInt, "slen", strT)
		n = c.define("cpn", Ite(Le(d[2], sl), d[2], sl))
	} else {
		sBase, sOff = args[1][0], args[1][1]
		n = c.define("cpn", Ite(Le(d[2], args[1][2]), d[2], args[1][2]))
	}
	for k := range lay {
		key := arrKey(el, k)
		h := c.heapGet(st, key, c.heapSort(key, lay[k]))
		old := Select(h, d[0])
		na := c.fresh("cparr", ArrSort(SInt, lay[k].Sort))
		c.n++
		j := Term{fmt.Sprintf("j!%d", c.n), SInt}
		var src Term
		if fromString {
			src = app(SInt, "sat", strT, Sub(j, d[1]))
		} else {
			// memmove semantics: the source is read from the pre-state
			src = Select(Select(h, sBase), Add(sOff, Sub(j, d[1])))
		}
		inWin := And(Ge(j, d[1]), Lt(j, Add(d[1], n)))
		c.assertDef(na, Forall([]Term{j}, Eq(Select(na, j), Ite(inWin, src, Select(old, j))), []Term{Select(na, j)}, []Term{Select(old, j)}))
		c.setHeap(st, key, c.define("heap", Store(h, d[0], na)))
	}
	return []Term{n}
}

var _ = token.NoPos

// smallLeaf: loop-free module functions of a few instructions are executed in
// place instead of being abstracted (no contract needed for trivial helpers).
func smallLeaf(fn *ssa.Function) bool {
	if len(fn.Blocks) == 0 || len(fn.Blocks) > 12 || fn.Recover != nil {
		return false
	}
	n := 0
	for _, b := range fn.Blocks {
		n += len(b.Instrs)
		for _, in := range b.Instrs {
			switch in.(type) {
			case *ssa.Go, *ssa.Select, *ssa.Defer, *ssa.MakeClosure, *ssa.Send, *ssa.Panic:
				// explicit panics belong to the callee's own verification unit
				return false
			}
		}
	}
	return n <= 60 && len(findLoops(fn)) == 0
}

func (f *Frame) tryInline(fn *ssa.Function, args [][]Term, st *State, in ssa.Instruction) (res []Term, ok bool) {
	c := f.ctx
	nObl := len(c.obls)
	defer func() {
		if r := recover(); r != nil {
			if _, isU := r.(unsupportedErr); isU {
				c.obls = c.obls[:nObl]
				res, ok = nil, false
				return
			}
			panic(r)
		}
	}()
	res = f.inline(fn, args, nil, st, in)
	return res, true
}

func samePackage(a, b *ssa.Function) bool {
	pa, pb := a.Package(), b.Package()
	if pa == nil && a.Parent() != nil {
		pa = a.Parent().Package()
	}
	if pb == nil && b.Parent() != nil {
		pb = b.Parent().Package()
	}
	return pa != nil && pa == pb
}

// callFree: no calls other than builtins (constructors, getters).
func callFree(fn *ssa.Function) bool {
	for _, b := range fn.Blocks {
		for _, in := range b.Instrs {
			if ci, ok := in.(ssa.CallInstruction); ok {
				if _, isB := ci.Common().Value.(*ssa.Builtin); !isB {
					return false
				}
			}
			if _, ok := in.(*ssa.TypeAssert); ok {
				return false
			}
		}
	}
	return true
}

// externUF: an external function used in a specification, as an uninterpreted function.
func (f *Frame) externUF(fn *ssa.Function, args [][]Term) []Term {
	c := f.ctx
	c.note("assumed", "dependency function "+fn.String()+" used in specifications as an uninterpreted pure function")
	name := "ext_" + smtSym(fn.String())
	var flat []Term
	var sorts []string
	for _, a := range args {
		for _, t := range a {
			flat = append(flat, t)
			sorts = append(sorts, string(t.Sort))
		}
	}
	res := layout(fn.Signature.Results())
	out := make([]Term, len(res))
	for k, l := range res {
		n := fmt.Sprintf("%s_%d", name, k)
		if !c.declared[n] {
			c.declared[n] = true
			c.emit(fmt.Sprintf("(declare-fun %s (%s) %s)", n, strings.Join(sorts, " "), l.Sort))
		}
		out[k] = app(l.Sort, n, flat...)
	}
	return out
}

type localObj struct {
	ref Term
	typ types.Type
}

// setPassedRefs records which references are handed to the callee: pointer
// arguments, the receiver of an interface call and the variables captured by
// closures passed as arguments (one level of objects reachable through them
// is not tracked: a local whose address is stored in another object counts as
// escaped through that object, see execStore).
func (f *Frame) setPassedRefs(cc *ssa.CallCommon) {
	f.passedRefs = map[string]bool{}
	add := func(v ssa.Value) {
		ts := f.get(v)
		for _, t := range ts {
			f.passedRefs[t.S] = true
		}
		if len(ts) == 1 {
			if cl, ok := f.ctx.eng.closures[ts[0].S]; ok {
				for _, b := range cl.binds {
					for _, t := range b {
						f.passedRefs[t.S] = true
					}
				}
			}
		}
	}
	if cc.IsInvoke() {
		add(cc.Value)
	} else if _, ok := cc.Value.(*ssa.Function); !ok {
		if _, isB := cc.Value.(*ssa.Builtin); !isB {
			add(cc.Value)
		}
	}
	for _, a := range cc.Args {
		add(a)
	}
	for fr := f; fr != nil; fr = fr.parent {
		for s := range fr.leaked {
			f.passedRefs[s] = true
		}
	}
}

// frameRefs resolves a contract's modifies list against actual arguments:
// heap-key prefix -> the references at which keys of that prefix may change.
//   modifies p    (p a pointer)          : the object p points to
//   modifies p    (p a slice)            : p's backing array
//   modifies *p   (p a pointer to slice) : the slice header *p and the backing
//                                          array it has in the pre-state
func (f *Frame) frameRefs(blk *Block, params []*ssa.Parameter, args [][]Term, st *State) map[string][]Term {
	c := f.ctx
	out := map[string][]Term{}
	for _, m := range blk.Modifies {
		deref := strings.HasPrefix(m, "*")
		name := strings.TrimPrefix(m, "*")
		for i, pn := range blk.ParamNames {
			if pn != name || i >= len(params) || i >= len(args) {
				continue
			}
			pt, isPtr := params[i].Type().Underlying().(*types.Pointer)
			if isPtr {
				prefix := "H|" + typeKey(pt.Elem()) + "|"
				out[prefix] = append(out[prefix], args[i][0])
				if deref {
					if sl, ok := pt.Elem().Underlying().(*types.Slice); ok {
						hdr := c.load(st, c.shapeOf(args[i][0], params[i].Type()))
						aprefix := "A|" + elemKey(sl.Elem()) + "|"
						out[aprefix] = append(out[aprefix], hdr[0])
					}
				}
			}
			if sl, ok := params[i].Type().Underlying().(*types.Slice); ok && !deref {
				// a slice parameter: only its backing array changes
				prefix := "A|" + elemKey(sl.Elem()) + "|"
				out[prefix] = append(out[prefix], args[i][0])
			}
		}
	}
	return out
}

// rootFunction: the outermost enclosing function of a (possibly anonymous) function.
func rootFunction(fn *ssa.Function) *ssa.Function {
	for fn.Parent() != nil {
		fn = fn.Parent()
	}
	return fn
}

// unitMeasure evaluates the decreases measure of the function under
// verification at its entry. For a closure unit it is the measure of the
// enclosing function on the values of that function's parameters, which the
// closure must capture unmodified (so that they are the entry values).
func (f *Frame) unitMeasure() (Term, *Clause, string) {
	c := f.ctx
	top := f.topFrame()
	root := rootFunction(top.fn)
	if top.fn == root {
		if top.block == nil || top.block.Dec == nil {
			return Term{}, nil, "the function under verification has no decreases measure"
		}
		n := top.block.Dec.Fn.Signature.Params().Len()
		if n > len(top.argVals) {
			return Term{}, nil, "measure arity"
		}
		return c.evalSpecFn(top.block.Dec.Fn, top.argVals[:n], top.entry, snapOf(top.entry), top)[0], top.block.Dec, ""
	}
	rb := c.eng.ld.ByFn[root]
	if rb == nil || rb.Dec == nil {
		return Term{}, nil, "the enclosing function " + root.Name() + " has no decreases measure"
	}
	if top.fn.Parent() != root {
		return Term{}, nil, "closure nested more than one level below " + root.Name()
	}
	// the MakeClosure instruction of this closure in the parent
	var mc *ssa.MakeClosure
	for _, b := range root.Blocks {
		for _, in := range b.Instrs {
			if m, ok := in.(*ssa.MakeClosure); ok && m.Fn == top.fn {
				mc = m
			}
		}
	}
	if mc == nil {
		return Term{}, nil, "closure creation not found in " + root.Name()
	}
	var args [][]Term
	for _, p := range root.Params {
		found := false
		for i, b := range mc.Bindings {
			if i >= len(top.bindings) {
				break
			}
			if b == ssa.Value(p) {
				args = append(args, top.bindings[i])
				found = true
				break
			}
			// captured by reference: a cell of the parent that is only ever
			// assigned the parameter (so it still holds the entry value)
			if a, ok := b.(*ssa.Alloc); ok && a.Comment == p.Name() {
				only := true
				for _, ref := range *a.Referrers() {
					if st, ok := ref.(*ssa.Store); ok && st.Addr == ssa.Value(a) && st.Val != ssa.Value(p) {
						only = false
					}
				}
				// stores inside closures that capture the cell
				for _, anon := range root.AnonFuncs {
					for fi, fv := range anon.FreeVars {
						_ = fi
						if fv.Name() != p.Name() {
							continue
						}
						for _, ref := range *fv.Referrers() {
							if st, ok := ref.(*ssa.Store); ok && st.Addr == ssa.Value(fv) {
								only = false
							}
						}
					}
				}
				if pt, ok := a.Type().Underlying().(*types.Pointer); ok && only {
					sh := &PtrShape{Kind: pObj, Ref: top.bindings[i][0], Root: pt.Elem(), Off: 0, Typ: pt.Elem()}
					args = append(args, c.load(top.entry, sh))
					found = true
					break
				}
			}
		}
		if !found {
			// not captured (or captured after reassignment): an unknown value;
			// a measure that depends on it will not be provable
			args = append(args, c.freshLeaves("uncaptured_"+p.Name(), p.Type()))
		}
	}
	if rb.Dec.Fn.Signature.Params().Len() != len(args) {
		return Term{}, nil, "measure arity"
	}
	return c.evalSpecFn(rb.Dec.Fn, args, top.entry, snapOf(top.entry), top)[0], rb.Dec, ""
}

func (f *Frame) recursionObligation(in ssa.Instruction, callee *ssa.Function, blk *Block, args [][]Term, st *State) {
	c := f.ctx
	if f.spec || callee == nil {
		return
	}
	top := f.topFrame()
	root := rootFunction(top.fn)
	if callee != root && !c.eng.reaches(callee, root) {
		return
	}
	rb := c.eng.ld.ByFn[root]
	if blk == nil || blk.Dec == nil {
		// a recursive cycle through a callee without measure: only an issue when
		// termination of this unit is claimed (its root has a measure)
		if rb != nil && rb.Dec != nil && !rb.IsGhostDecl {
			c.addObl(&Obligation{Name: c.oblName(f.label, "rec-decreases"), Kind: "rec-decreases", Fn: f.label, Pos: f.posOf(in.Pos()), Text: "recursion through " + callee.Name() + ", which has no decreases measure", Reach: st.Reach, Goal: TFalse})
		}
		return
	}
	if rb == nil || rb.Dec == nil {
		if top.fn == root && callee != root {
			return // this unit claims no termination
		}
		if top.fn != root {
			return
		}
	}
	d0, cl, why := f.unitMeasure()
	if cl == nil {
		c.addObl(&Obligation{Name: c.oblName(f.label, "rec-decreases"), Kind: "rec-decreases", Fn: f.label, Pos: f.posOf(in.Pos()), Text: "recursive call of " + callee.Name() + ": " + why, Reach: st.Reach, Goal: TFalse})
		return
	}
	n := blk.Dec.Fn.Signature.Params().Len()
	if n > len(args) {
		return
	}
	d1 := c.evalSpecFn(blk.Dec.Fn, args[:n], st, snapOf(st), f)[0]
	c.addObl(&Obligation{Name: c.oblName(f.label, "rec-decreases"), Kind: "rec-decreases", Fn: f.label, Pos: f.posOf(in.Pos()), Text: "decreases " + blk.Dec.Text + "  [call of " + callee.Name() + " must lower the measure " + cl.Text + "]", Reach: st.Reach, Goal: And(Ge(d0, IntLit(0)), Lt(d1, d0)), Clause: blk.Dec})
}
