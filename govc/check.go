package main

// The check command: decide one property, write evidence, report violations.

import (
	"encoding/json"
	"flag"
	"fmt"
	"os"
	"path/filepath"
	"sort"
	"strconv"
	"strings"
	"time"
)

type knownFinding struct {
	Prop       string
	Obligation string // obligation name prefix (function/kind), no ordinal
	What       string
}

func loadKnownFindings(path string) ([]knownFinding, error) {
	data, err := os.ReadFile(path)
	if err != nil {
		if os.IsNotExist(err) {
			return nil, nil
		}
		return nil, err
	}
	var out []knownFinding
	for _, ln := range strings.Split(string(data), "\n") {
		ln = strings.TrimSpace(ln)
		if !strings.HasPrefix(ln, "finding:") {
			continue
		}
		kf := knownFinding{}
		rest := strings.TrimSpace(strings.TrimPrefix(ln, "finding:"))
		for {
			w, r := splitWord(rest)
			if strings.HasPrefix(w, "property=") {
				kf.Prop = strings.TrimPrefix(w, "property=")
				rest = r
			} else if strings.HasPrefix(w, "obligation=") {
				kf.Obligation = strings.TrimPrefix(w, "obligation=")
				rest = r
			} else {
				break
			}
		}
		kf.What = rest
		out = append(out, kf)
	}
	return out, nil
}

type oblRecord struct {
	Name    string  `json:"name"`
	Kind    string  `json:"kind"`
	Status  string  `json:"status"`
	Backend string  `json:"backend"`
	SolverS float64 `json:"solver_s"`
	Pos     string  `json:"pos"`
	Text    string  `json:"text"`
}

func verifDir() string {
	if d := os.Getenv("VERIF_DIR"); d != "" {
		return d
	}
	exe, err := os.Executable()
	if err == nil {
		d := filepath.Dir(filepath.Dir(exe))
		if _, err := os.Stat(filepath.Join(d, "properties.jsonl")); err == nil {
			return d
		}
	}
	return "/verif"
}

func cmdCheck(args []string) int {
	fs := flag.NewFlagSet("check", flag.ExitOnError)
	prop := fs.String("property", "", "property id")
	tier := fs.String("tier", "", "quick|thorough")
	repo := fs.String("repo", "/repo", "repository")
	only := fs.String("fn", "", "only units whose name contains this")
	dump := fs.String("dump", "", "directory to dump SMT queries of failing obligations")
	verbose := fs.Bool("v", false, "verbose")
	noEvidence := fs.Bool("no-evidence", false, "do not write evidence / replay files")
	noReplay := fs.Bool("no-replay", false, "do not replay counterexamples on the real code")
	fs.Parse(args)
	if *tier == "" {
		*tier = os.Getenv("VERIF_TIER")
		if *tier == "" {
			*tier = "quick"
		}
	}
	seed := 0
	if s := os.Getenv("VERIF_SEED"); s != "" {
		seed, _ = strconv.Atoi(s)
	}
	t0 := time.Now()
	vdir := verifDir()
	ld, err := Load(*repo, []string{"./..."})
	if err != nil {
		fmt.Fprintln(os.Stderr, "govc: load error:", err)
		if *prop != "" {
			// the tree does not build with the contracts: the proof no longer covers the code
			fmt.Printf("ENGINE-FAILURE property=%s load: %v\n", *prop, err)
		}
		return 2
	}
	fmt.Fprintf(os.Stderr, "govc: loaded in %.1fs, %d contract blocks\n", time.Since(t0).Seconds(), len(ld.Blocks))
	eng := newEngine(ld)
	eng.tier = *tier
	eng.verbose = *verbose
	// units: blocks of the property, closed under used contracts
	done := map[*Block]bool{}
	var units []*Unit
	var trusted []string
	var work []*Block
	for _, b := range ld.Blocks {
		if *prop != "" && !contains(b.Props, *prop) {
			continue
		}
		if *only != "" && !strings.Contains(b.QualName(), *only) {
			continue
		}
		work = append(work, b)
	}
	for len(work) > 0 {
		b := work[0]
		work = work[1:]
		if done[b] {
			continue
		}
		done[b] = true
		if b.Flags["trusted"] || b.Flags["assume-contract"] {
			trusted = append(trusted, "assumed contract (not verified): "+b.QualName())
			if b.Dec == nil || b.Target == nil || len(b.Target.Blocks) == 0 {
				continue
			}
			// the recursion measure of a function whose functional contract is
			// assumed is still checked: only those obligations are kept
			u := eng.verifyBlock(b)
			var kept []*Obligation
			for _, o := range u.Ctx.obls {
				if o.Kind == "rec-decreases" || o.Expect == "sat" || strings.Contains(o.Text, "[at creation of closure ") || (o.Kind == "pre@call" && o.Clause != nil && len(o.Clause.OnlyProps) > 0) {
					kept = append(kept, o)
				}
			}
			u.Ctx.obls = kept
			units = append(units, u)
			continue
		}
		if b.IsGhostDecl && b.Flags["pure"] && len(b.Pre) == 0 && len(b.Post) == 0 && b.Dec == nil {
			continue // non-recursive ghost definitions need no proof
		}
		u := eng.verifyBlock(b)
		units = append(units, u)
		if *only == "" {
			var ks []*Block
			for ub := range u.Ctx.used {
				ks = append(ks, ub)
			}
			sort.Slice(ks, func(i, j int) bool { return ks[i].QualName() < ks[j].QualName() })
			work = append(work, ks...)
		}
	}
	timeout := 20
	if *tier == "thorough" {
		timeout = 120
	}
	if v := os.Getenv("GOVC_TIMEOUT"); v != "" {
		if n, err := strconv.Atoi(v); err == nil && n > 0 {
			timeout = n
		}
	}
	sv, err := newSolver(timeout)
	if err != nil {
		fmt.Fprintln(os.Stderr, err)
		return 2
	}
	defer sv.cleanup()
	sv.agree = *tier == "thorough"
	for _, u := range units {
		if *prop != "" && !contains(u.Block.Props, *prop) && u.Block.PropKinds[*prop] == nil {
			// a unit pulled in because its contract was used: what callers
			// relied on is its postcondition, not its own run-time safety
			if u.Block.PropKinds == nil {
				u.Block.PropKinds = map[string][]string{}
			}
			u.Block.PropKinds[*prop] = []string{"post", "pre@call", "inv-init", "inv-step", "terminates", "rec-decreases", "callsite", "unit"}
		}
		if kinds := u.Block.PropKinds[*prop]; kinds != nil {
			var kept []*Obligation
			for _, o := range u.Ctx.obls {
				// loop invariants are assumed by every obligation behind the loop:
				// their own obligations are never filtered out
				if o.Expect == "sat" || kindAllowed(kinds, o.Kind) || o.Kind == "inv-init" || o.Kind == "inv-step" {
					kept = append(kept, o)
				}
			}
			u.Ctx.obls = kept
		}
		// clauses restricted to other properties
		var kept []*Obligation
		for _, o := range u.Ctx.obls {
			if o.Clause != nil && len(o.Clause.OnlyProps) > 0 && *prop != "" && !contains(o.Clause.OnlyProps, *prop) {
				continue
			}
			kept = append(kept, o)
		}
		u.Ctx.obls = kept
	}
	known, err := loadKnownFindings(filepath.Join(vdir, "known_findings.txt"))
	if err != nil {
		fmt.Fprintln(os.Stderr, err)
		return 2
	}
	// an obligation recorded as a known finding is expected not to discharge:
	// it gets a short solver budget (still long enough to notice if it starts
	// to hold, in which case the finding line is stale and it simply passes)
	for _, u := range units {
		for _, o := range u.Ctx.obls {
			if matchKnown(known, *prop, o.Name) != nil {
				o.ShortBudget = true
			}
		}
	}
	sv.dischargeAll(units, 16)
	total, discharged, violations, engineFail := 0, 0, 0, 0
	knownObls := 0
	var recs []oblRecord
	var samples []interface{}
	backends := map[string]int{}
	solverTime := 0.0
	assumed := map[string]bool{}
	abstracted := map[string]bool{}
	var functions []string
	knownMatched := map[string]bool{}
	var violationLines []string
	covers := 0
	for _, u := range units {
		functions = append(functions, u.Block.QualName())
		for k := range u.Ctx.assumed {
			assumed[k] = true
		}
		for k := range u.Ctx.abstracted {
			abstracted[k] = true
		}
		if u.Err != "" {
			// engine-level failure of a unit: the contract no longer covers the code
			total++
			name := u.Block.QualName() + "/unit"
			st := "UNPROVED"
			recs = append(recs, oblRecord{Name: name, Kind: "unit", Status: st, Text: u.Err})
			if kf := matchKnown(known, *prop, name); kf != nil {
				knownMatched[kf.Obligation+" "+kf.What] = true
			} else {
				violations++
				path := writeReplay(vdir, *prop, name, nil, u, u.Err, *noEvidence)
				violationLines = append(violationLines, fmt.Sprintf("VIOLATION property=%s replay=%s obligation=%s reason=%s no-failing-input-found", *prop, path, name, firstWords(u.Err)))
			}
			if *verbose {
				fmt.Printf("ENGINE %s: %s\n", u.Block.QualName(), u.Err)
			}
		}
		obls := u.Ctx.obls
		sort.SliceStable(obls, func(i, j int) bool { return obls[i].Name < obls[j].Name })
		for _, o := range obls {
			if kinds := u.Block.PropKinds[*prop]; kinds != nil && o.Expect != "sat" && !kindAllowed(kinds, o.Kind) {
				continue
			}
			pos := fmt.Sprintf("%s:%d", shortPos(o.Pos.Filename), o.Pos.Line)
			recs = append(recs, oblRecord{o.Name, o.Kind, o.Status, o.Backend, o.SolverS, pos, o.Text})
			solverTime += o.SolverS
			if o.Expect == "sat" {
				covers++
				if o.Status != "COVERED" {
					engineFail++
					fmt.Printf("ENGINE-FAILURE vacuity: %s is %s (preconditions unsatisfiable?)\n", o.Name, o.Status)
				}
				continue
			}
			total++
			if o.Status == "PROVED" {
				discharged++
				if *dump != "" && os.Getenv("GOVC_DUMPALL") != "" {
					os.MkdirAll(*dump, 0o755)
					os.WriteFile(*dump+"/"+smtSym(o.Name)+".smt2", []byte(u.Ctx.query(o, true)), 0o644)
					os.WriteFile(*dump+"/"+smtSym(o.Name)+".sliced.smt2", []byte(u.Ctx.slicedQuery(o, true)), 0o644)
				}
				if os.Getenv("GOVC_LIST") != "" {
					fmt.Printf("%-9s %-70s %-10s %.2fs  %s  %s\n", o.Status, o.Name, o.Backend, o.SolverS, pos, truncate(o.Text, 120))
				}
				backends[o.Backend]++
				if len(samples) < 3 {
					samples = append(samples, map[string]interface{}{"obligation": o.Name, "kind": o.Kind, "clause": o.Text, "pos": pos, "backend": o.Backend, "goal_smt": truncate(o.Goal.S, 600)})
				}
				continue
			}
			if o.Status == "DISAGREE" || o.Status == "ERROR" {
				engineFail++
				fmt.Printf("ENGINE-FAILURE %s: %s %s\n", o.Name, o.Status, truncate(o.Raw, 300))
				if *dump != "" {
					os.MkdirAll(*dump, 0o755)
					os.WriteFile(*dump+"/"+smtSym(o.Name)+".smt2", []byte(u.Ctx.query(o, true)), 0o644)
					os.WriteFile(*dump+"/"+smtSym(o.Name)+".sliced.smt2", []byte(u.Ctx.slicedQuery(o, true)), 0o644)
				}
				continue
			}
			if *verbose || true {
				fmt.Printf("%-9s %-70s %-10s %.2fs  %s  %s\n", o.Status, o.Name, o.Backend, o.SolverS, pos, o.Text)
			}
			if *dump != "" {
				os.MkdirAll(*dump, 0o755)
				os.WriteFile(*dump+"/"+smtSym(o.Name)+".smt2", []byte(u.Ctx.query(o, true)), 0o644)
				os.WriteFile(*dump+"/"+smtSym(o.Name)+".sliced.smt2", []byte(u.Ctx.slicedQuery(o, true)), 0o644)
			}
			if kf := matchKnown(known, *prop, o.Name); kf != nil {
				knownMatched[kf.Obligation+" "+kf.What] = true
				total-- // reported as a known finding, not part of the proved obligation set
				knownObls++
				continue
			}
			violations++
			var rr *replayResult
			if o.Status == "REFUTED" && !*noReplay {
				r := eng.replay(sv, u, o, *prop)
				rr = &r
			}
			path := writeReplayRes(vdir, *prop, o.Name, o, u, "", *noEvidence, rr)
			suffix := " no-failing-input-found"
			if rr != nil && rr.Verdict == "confirmed" {
				suffix = " replay=confirmed: " + truncate(rr.Detail, 160)
			} else if o.Status == "REFUTED" && len(o.Model) > 0 {
				suffix = " model=" + modelString(o.Model) + " no-failing-input-found"
			}
			violationLines = append(violationLines, fmt.Sprintf("VIOLATION property=%s replay=%s obligation=%s%s", *prop, path, o.Name, suffix))
		}
	}
	var kms []string
	for k := range knownMatched {
		kms = append(kms, k)
	}
	sort.Strings(kms)
	for _, k := range kms {
		fmt.Printf("KNOWN-FINDING: property=%s %s\n", *prop, k)
	}
	for _, l := range violationLines {
		fmt.Println(l)
	}
	if total == 0 {
		fmt.Printf("ENGINE-FAILURE property=%s generated zero obligations\n", *prop)
		engineFail++
	}
	wall := time.Since(t0).Seconds()
	fmt.Printf("govc: property=%s tier=%s units=%d obligations=%d discharged=%d violations=%d known=%d covers=%d engine-failures=%d wall=%.1fs\n", *prop, *tier, len(units), total, discharged, violations, len(kms), covers, engineFail, wall)

	if !*noEvidence && *prop != "" && *only == "" {
		tb := []string{
			"go/packages, go/types, go/ssa (x/tools v0.29.0) represent the program faithfully; the Go compiler implements the spec",
			"govc's translation of the go/ssa subset and its memory model (DESIGN.md §2.3)",
			"unsat answers of z3 5.1.0 / cvc5 1.0 / z3 4.8.12",
		}
		tb = append(tb, trusted...)
		tb = append(tb, sortedKeys(assumed)...)
		sort.Strings(functions)
		ev := map[string]interface{}{
			"property_id": *prop,
			"tier":        *tier,
			"seed":        seed,
			"level":       "proof",
			"wall_s":      wall,
			"violations":  violations,
			"assumptions": append(sortedKeys(assumed), sortedKeys(abstracted)...),
			"coverage": map[string]interface{}{
				"obligations":              total,
				"discharged":               discharged,
				"checker_cmd":              "bin/govc check --property " + *prop + " --tier " + *tier,
				"trusted_base":             tb,
				"functions_under_contract": functions,
				"backends":                 backends,
				"solver_s":                 solverTime,
				"vacuity_covers":           covers,
				"known_findings_matched":   kms,
				"obligations_failing_as_known_findings": knownObls,
				"abstracted":               sortedKeys(abstracted),
				"samples":                  samples,
				"obligation_list":          recs,
			},
		}
		os.MkdirAll(filepath.Join(vdir, "evidence"), 0o755)
		data, _ := json.MarshalIndent(ev, "", " ")
		os.WriteFile(filepath.Join(vdir, "evidence", *prop+".json"), data, 0o644)
	}
	if engineFail > 0 {
		return 2
	}
	if violations > 0 {
		return 1
	}
	return 0
}

func firstWords(s string) string {
	s = strings.ReplaceAll(s, " ", "_")
	if len(s) > 80 {
		s = s[:80]
	}
	return s
}

func truncate(s string, n int) string {
	if len(s) > n {
		return s[:n] + "..."
	}
	return s
}

func modelString(m map[string]string) string {
	var ks []string
	for k := range m {
		ks = append(ks, k)
	}
	sort.Strings(ks)
	var parts []string
	for _, k := range ks {
		parts = append(parts, k+"="+strings.ReplaceAll(m[k], " ", ""))
	}
	s := strings.Join(parts, ",")
	if len(s) > 200 {
		s = s[:200]
	}
	return s
}

// matchKnown: a failed obligation matches a known finding when the finding's
// obligation name equals the obligation name without its trailing ordinal.
func matchKnown(known []knownFinding, prop, name string) *knownFinding {
	for i := range known {
		kf := &known[i]
		if kf.Prop != prop {
			continue
		}
		if name == kf.Obligation || stripOrdinal(name) == kf.Obligation {
			return kf
		}
	}
	return nil
}

func stripOrdinal(name string) string {
	if i := strings.LastIndex(name, "#"); i >= 0 {
		if _, err := strconv.Atoi(name[i+1:]); err == nil {
			return name[:i]
		}
	}
	if i := strings.LastIndex(name, "@ret"); i >= 0 {
		return name[:i]
	}
	return name
}

func writeReplay(vdir, prop, name string, o *Obligation, u *Unit, reason string, skip bool) string {
	return writeReplayRes(vdir, prop, name, o, u, reason, skip, nil)
}

func writeReplayRes(vdir, prop, name string, o *Obligation, u *Unit, reason string, skip bool, rr *replayResult) string {
	dir := filepath.Join(vdir, "replays", prop)
	path := filepath.Join(dir, smtSym(name)+".json")
	if skip {
		return path
	}
	os.MkdirAll(dir, 0o755)
	rec := map[string]interface{}{
		"property":   prop,
		"obligation": name,
		"function":   u.Block.QualName(),
		"verdict":    "no-failing-input-found",
	}
	if reason != "" {
		rec["reason"] = reason
	}
	if o != nil {
		rec["kind"] = o.Kind
		rec["pos"] = fmt.Sprintf("%s:%d", shortPos(o.Pos.Filename), o.Pos.Line)
		rec["clause"] = o.Text
		rec["solver"] = o.Backend
		rec["status"] = o.Status
		rec["solver_output"] = truncate(o.Raw, 4000)
		rec["model"] = o.Model
		rec["smt_query"] = u.Ctx.query(o, true)
	}
	if rr != nil {
		rec["verdict"] = rr.Verdict
		rec["replay_detail"] = rr.Detail
		rec["replay_test_source"] = rr.Source
		rec["replay_test_output"] = truncate(rr.Output, 4000)
		if rr.Verdict != "confirmed" {
			rec["verdict"] = "no-failing-input-found (" + rr.Verdict + ": " + rr.Detail + ")"
		}
	}
	data, _ := json.MarshalIndent(rec, "", " ")
	os.WriteFile(path, data, 0o644)
	return path
}

func kindAllowed(kinds []string, kind string) bool {
	for _, k := range kinds {
		if k == kind || (k == "safety" && (kind == "bounds" || kind == "nil" || kind == "assert-type" || kind == "div0" || kind == "panic-unreachable" || kind == "overflow")) {
			return true
		}
	}
	return false
}
