package main

// Verification context: SMT prelude under construction, fresh names, pointer
// shapes, obligations, heap-map declarations, string constants.

import (
	"fmt"
	"go/token"
	"go/types"
	"sort"
	"strings"
)

type Cell struct {
	ID   int
	Typ  types.Type
	Name string
}

const (
	pLocal = iota
	pObj
	pElem
)

type PtrShape struct {
	Kind int
	Cell *Cell
	Ref  Term
	Idx  Term
	Root types.Type
	Off  int
	Typ  types.Type
}

type Obligation struct {
	Name    string
	Kind    string
	Fn      string
	Pos     token.Position
	Text    string
	Reach   Term
	Goal    Term
	Prefix  int    // length of the prelude this obligation may use
	Expect  string // "unsat" for proof obligations, "sat" for cover checks
	Props   []string
	Status  string // PROVED / REFUTED / UNPROVED / COVERED
	Backend string
	SolverS float64
	Model   map[string]string
	Raw     string
	Clause  *Clause
	Block   *Block
}

type InputLeaf struct {
	Name  string // Go-level path, e.g. "s.len", "q"
	Const string // SMT constant
	Sort  Sort
}

type Ctx struct {
	eng        *Engine
	unit       string
	prelude    []string
	declared   map[string]bool
	n          int
	shapes     map[string]*PtrShape
	obls       []*Obligation
	inputs     []InputLeaf
	strConsts  map[string]Term
	cellN      int
	heap0      map[string]Term
	assumed    map[string]bool // trusted-base notes collected for this unit
	abstracted map[string]bool
	ufDefs     map[string]bool
	unfolded   map[string]bool
	typeIDs    map[string]int
	props      []string
	block      *Block
	oblCount   map[string]int
	globals    map[string]Term
	unfoldDepth int
	fuel        int
	genN        int
	used        map[*Block]bool // contracts applied at call sites / ghost functions used
	specDepth   int
	pending     []pendingFact
	quantVars   []string
}

func newCtx(eng *Engine, unit string) *Ctx {
	c := &Ctx{eng: eng, unit: unit, declared: map[string]bool{}, shapes: map[string]*PtrShape{}, strConsts: map[string]Term{}, heap0: map[string]Term{}, assumed: map[string]bool{}, abstracted: map[string]bool{}, ufDefs: map[string]bool{}, unfolded: map[string]bool{}, typeIDs: map[string]int{}, oblCount: map[string]int{}, globals: map[string]Term{}, used: map[*Block]bool{}}
	c.fuel = 1
	c.emit("(declare-sort Str 0)")
	c.emit("(declare-fun slen (Str) Int)")
	c.emit("(declare-fun sat (Str Int) Int)")
	c.emit("(declare-fun ssub (Str Int Int) Str)")
	c.emit("(declare-fun sconcat (Str Str) Str)")
	c.emit("(declare-const str_empty Str)")
	c.emit("(assert (= (slen str_empty) 0))")
	c.emit("(assert (forall ((s Str)) (! (>= (slen s) 0) :pattern ((slen s)))))")
	c.emit("(assert (forall ((s Str) (i Int)) (! (and (<= 0 (sat s i)) (<= (sat s i) 255)) :pattern ((sat s i)))))")
	return c
}

func (c *Ctx) emit(s string) { c.prelude = append(c.prelude, s) }

func (c *Ctx) freshName(prefix string) string {
	c.n++
	return fmt.Sprintf("%s!%d", smtSym(prefix), c.n)
}

func (c *Ctx) fresh(prefix string, sort Sort) Term {
	name := c.freshName(prefix)
	c.emit(fmt.Sprintf("(declare-const %s %s)", name, sort))
	return Term{name, sort}
}

// define names a term so that later uses share it.
func (c *Ctx) define(prefix string, t Term) Term {
	if len(t.S) <= 48 {
		return t
	}
	for _, q := range c.quantVars {
		if strings.Contains(t.S, q) {
			return t
		}
	}
	name := c.freshName(prefix)
	c.emit(fmt.Sprintf("(define-fun %s () %s %s)", name, t.Sort, t.S))
	return Term{name, t.Sort}
}

func (c *Ctx) assert(t Term) {
	if t.IsTrue() {
		return
	}
	c.emit("(assert " + t.S + ")")
}

func (c *Ctx) freshLeaves(prefix string, t types.Type) []Term {
	lay := layout(t)
	out := make([]Term, len(lay))
	for i, l := range lay {
		p := prefix
		if len(lay) > 1 {
			p = fmt.Sprintf("%s.%d", prefix, i)
			if l.Role != "" {
				p = fmt.Sprintf("%s.%d%s", prefix, i, l.Role)
			}
		}
		out[i] = c.fresh(p, l.Sort)
	}
	return out
}

func (c *Ctx) heapSort(key string, leaf Leaf) Sort {
	if strings.HasPrefix(key, "A|") {
		return ArrSort(SInt, ArrSort(SInt, leaf.Sort))
	}
	return ArrSort(SInt, leaf.Sort)
}

// heapInit returns the initial (function entry) heap constant of a key.
func (c *Ctx) heapInit(gen int, key string, sort Sort) Term {
	gk := fmt.Sprintf("%d|%s", gen, key)
	if t, ok := c.heap0[gk]; ok {
		return t
	}
	name := fmt.Sprintf("H%d_%s", gen, smtSym(key))
	if !c.declared[name] {
		c.declared[name] = true
		c.emit(fmt.Sprintf("(declare-const %s %s)", name, sort))
	}
	t := Term{name, sort}
	c.heap0[gk] = t
	return t
}

func (c *Ctx) strConst(s string) Term {
	if s == "" {
		return Term{"str_empty", SStr}
	}
	if t, ok := c.strConsts[s]; ok {
		return t
	}
	name := fmt.Sprintf("strc!%d", len(c.strConsts)+1)
	c.emit(fmt.Sprintf("(declare-const %s Str) ; %q", name, s))
	t := Term{name, SStr}
	var cs []Term
	cs = append(cs, Eq(app(SInt, "slen", t), IntLit(int64(len(s)))))
	for i := 0; i < len(s); i++ {
		cs = append(cs, Eq(app(SInt, "sat", t, IntLit(int64(i))), IntLit(int64(s[i]))))
	}
	c.assert(And(cs...))
	// distinct from the other constants
	for o, ot := range c.strConsts {
		if o != s {
			c.assert(Not(Eq(t, ot)))
		}
	}
	c.assert(Not(Eq(t, Term{"str_empty", SStr})))
	c.strConsts[s] = t
	return t
}

func (c *Ctx) typeID(t types.Type) Term {
	k := types.TypeString(t, nil)
	id, ok := c.typeIDs[k]
	if !ok {
		id = c.eng.typeID(k)
		c.typeIDs[k] = id
	}
	return IntLit(int64(id))
}

func (c *Ctx) newCell(t types.Type, name string) *Cell {
	c.cellN++
	return &Cell{ID: c.cellN, Typ: t, Name: name}
}

func (c *Ctx) oblName(fn, kind string) string {
	base := fn + "/" + kind
	n := c.oblCount[base]
	c.oblCount[base] = n + 1
	if n == 0 && !strings.Contains(kind, "#") && (kind == "cover-pre") {
		return base
	}
	return fmt.Sprintf("%s#%d", base, n)
}

func (c *Ctx) addObl(o *Obligation) {
	o.Prefix = len(c.prelude)
	if o.Expect == "" {
		o.Expect = "unsat"
	}
	o.Props = c.props
	o.Block = c.block
	c.obls = append(c.obls, o)
}

func (c *Ctx) note(kind, s string) {
	switch kind {
	case "assumed":
		c.assumed[s] = true
	case "abstracted":
		c.abstracted[s] = true
	}
}

func sortedKeys(m map[string]bool) []string {
	var out []string
	for k := range m {
		out = append(out, k)
	}
	sort.Strings(out)
	return out
}

// query renders the SMT-LIB text for an obligation.
func (c *Ctx) query(o *Obligation, withModel bool) string {
	var b strings.Builder
	if withModel {
		b.WriteString("(set-option :produce-models true)\n")
	}
	b.WriteString("(set-logic ALL)\n")
	for _, l := range c.prelude[:o.Prefix] {
		b.WriteString(l)
		b.WriteByte('\n')
	}
	b.WriteString("(assert " + o.Reach.S + ")\n")
	if o.Expect == "unsat" {
		b.WriteString("(assert (not " + o.Goal.S + "))\n")
	}
	b.WriteString("(check-sat)\n")
	if withModel && len(c.inputs) > 0 {
		b.WriteString("(get-value (")
		for _, in := range c.inputs {
			b.WriteString(in.Const + " ")
		}
		b.WriteString("))\n")
	}
	return b.String()
}
