package main

// Verification context: SMT prelude under construction, fresh names, pointer
// shapes, obligations, heap-map declarations, string constants.

import (
	"fmt"
	"regexp"
	"go/token"
	"go/types"
	"sort"
	"strings"
)

type Cell struct {
	ID   int
	Typ  types.Type
	Name string
}

const (
	pLocal = iota
	pObj
	pElem
)

type PtrShape struct {
	Kind int
	Cell *Cell
	Ref  Term
	Idx  Term
	View Term // slice offset: the element is number View+Idx of the backing array (reads go through a shifted view so that quantifier triggers contain no arithmetic)
	Root types.Type
	Off  int
	Typ  types.Type
}

type Obligation struct {
	ShortBudget bool // recorded as a known finding: expected not to discharge, tried briefly
	Name    string
	Kind    string
	Fn      string
	Pos     token.Position
	Text    string
	Reach   Term
	Goal    Term
	Prefix  int    // length of the prelude this obligation may use
	Expect  string // "unsat" for proof obligations, "sat" for cover checks
	Props   []string
	Status  string // PROVED / REFUTED / UNPROVED / COVERED
	Backend string
	SolverS float64
	Model   map[string]string
	Raw     string
	Clause  *Clause
	Block   *Block
	Sliced  bool // the model comes from the sliced query only (candidate)
}

type InputLeaf struct {
	Name  string // Go-level path, e.g. "s.len", "q"
	Const string // SMT constant
	Sort  Sort
}

type Ctx struct {
	eng        *Engine
	unit       string
	prelude    []string
	reachNodes map[string]*reachNode
	defIndex   map[string]int
	NoSlice    bool
	defMemo    map[string]string
	defNames   map[string]bool
	atomMemo   map[string]string
	symSorts   map[string]Sort
	symScanned int
	heapAlloc  map[string]Term
	alloc0     Term
	genAlloc   map[int]Term
	subject    map[int]string // prelude index -> subject symbol of a definitional axiom
	declared   map[string]bool
	n          int
	shapes     map[string]*PtrShape
	obls       []*Obligation
	inputs     []InputLeaf
	strConsts  map[string]Term
	cellN      int
	heap0      map[string]Term
	assumed    map[string]bool // trusted-base notes collected for this unit
	abstracted map[string]bool
	ufDefs     map[string]bool
	unfolded   map[string]bool
	typeIDs    map[string]int
	props      []string
	block      *Block
	oblCount   map[string]int
	globals    map[string]Term
	unfoldDepth int
	fuel        int
	genN        int
	used        map[*Block]bool // contracts applied at call sites / ghost functions used
	specDepth   int
	pending     []pendingFact
	quantVars   []string
}

func newCtx(eng *Engine, unit string) *Ctx {
	c := &Ctx{eng: eng, unit: unit, declared: map[string]bool{}, shapes: map[string]*PtrShape{}, strConsts: map[string]Term{}, heap0: map[string]Term{}, assumed: map[string]bool{}, abstracted: map[string]bool{}, ufDefs: map[string]bool{}, unfolded: map[string]bool{}, typeIDs: map[string]int{}, subject: map[int]string{}, reachNodes: map[string]*reachNode{}, defMemo: map[string]string{}, heapAlloc: map[string]Term{}, genAlloc: map[int]Term{}, defIndex: map[string]int{}, oblCount: map[string]int{}, globals: map[string]Term{}, used: map[*Block]bool{}}
	c.fuel = 1
	c.emit("(declare-sort Str 0)")
	c.emit("(declare-fun slen (Str) Int)")
	c.emit("(declare-fun sat (Str Int) Int)")
	c.emit("(declare-fun ssub (Str Int Int) Str)")
	c.emit("(declare-fun sconcat (Str Str) Str)")
	c.emit("(declare-const str_empty Str)")
	c.emit("(assert (= (slen str_empty) 0))")
	c.emit("(assert (forall ((s Str)) (! (>= (slen s) 0) :pattern ((slen s)))))")
	c.emit("(assert (forall ((s Str) (i Int)) (! (and (<= 0 (sat s i)) (<= (sat s i) 255)) :pattern ((sat s i)))))")
	return c
}

func (c *Ctx) emit(s string) { c.prelude = append(c.prelude, s) }

func (c *Ctx) freshName(prefix string) string {
	c.n++
	return fmt.Sprintf("%s!%d", smtSym(prefix), c.n)
}

func (c *Ctx) fresh(prefix string, sort Sort) Term {
	name := c.freshName(prefix)
	c.emit(fmt.Sprintf("(declare-const %s %s)", name, sort))
	return Term{name, sort}
}

// define names a term so that later uses share it.
func (c *Ctx) define(prefix string, t Term) Term {
	if len(t.S) <= 48 {
		return t
	}
	for _, q := range c.quantVars {
		if strings.Contains(t.S, q) {
			return t
		}
	}
	if n, ok := c.defMemo[t.S]; ok {
		return Term{n, t.Sort}
	}
	name := c.freshName(prefix)
	c.emit(fmt.Sprintf("(define-fun %s () %s %s)", name, t.Sort, t.S))
	c.defMemo[t.S] = name
	if c.defNames == nil {
		c.defNames = map[string]bool{}
	}
	c.defNames[name] = true
	return Term{name, t.Sort}
}

var plainSymRe = regexp.MustCompile(`^-?[A-Za-z0-9_][A-Za-z0-9_.!$#@]*$`)

// atomFor returns a declared constant equal to the ground term t (t itself when
// it already is a literal or a declared constant). Terms that mention a bound
// variable are returned unchanged.
func (c *Ctx) atomFor(t Term) Term {
	for _, q := range c.quantVars {
		if strings.Contains(t.S, q) {
			return t
		}
	}
	if _, isReach := c.reachNodes[t.S]; plainSymRe.MatchString(t.S) && !c.defNames[t.S] && !isReach {
		return t
	}
	if n, ok := c.atomMemo[t.S]; ok {
		return Term{n, t.Sort}
	}
	name := c.freshName("pc")
	c.emit(fmt.Sprintf("(declare-const %s %s)", name, t.Sort))
	c.emit("(assert (= " + name + " " + t.S + "))")
	if c.atomMemo == nil {
		c.atomMemo = map[string]string{}
	}
	c.atomMemo[t.S] = name
	return Term{name, t.Sort}
}

var boundVarRe = regexp.MustCompile(`^(qv|fr)![0-9]+$`)

// cleanPattern rewrites a trigger term so that it contains no define-fun
// macro (solvers expand macros inside patterns and reject the boolean
// connectives they bring): every maximal ground subterm that mentions a macro
// name is replaced by a declared constant equal to it.
func (c *Ctx) cleanPattern(t Term) Term {
	type node struct {
		text  string
		kids  []*node
		bound bool // mentions a bound variable
		macro bool // mentions a macro name
	}
	src := t.S
	pos := 0
	var parse func() *node
	parse = func() *node {
		for pos < len(src) && (src[pos] == ' ' || src[pos] == '\n') {
			pos++
		}
		if pos < len(src) && src[pos] == '(' {
			start := pos
			pos++
			n := &node{}
			for {
				for pos < len(src) && (src[pos] == ' ' || src[pos] == '\n') {
					pos++
				}
				if pos >= len(src) {
					break
				}
				if src[pos] == ')' {
					pos++
					break
				}
				k := parse()
				n.kids = append(n.kids, k)
				n.bound = n.bound || k.bound
				n.macro = n.macro || k.macro
			}
			n.text = src[start:pos]
			return n
		}
		start := pos
		for pos < len(src) && src[pos] != ' ' && src[pos] != '(' && src[pos] != ')' && src[pos] != '\n' {
			pos++
		}
		a := src[start:pos]
		_, isReach := c.reachNodes[a]
		return &node{text: a, bound: boundVarRe.MatchString(a), macro: c.defNames[a] || isReach || strings.HasPrefix(a, "sreach!")}
	}
	root := parse()
	if !root.macro {
		return t
	}
	var render func(n *node) string
	render = func(n *node) string {
		if !n.macro {
			return n.text
		}
		if !n.bound {
			if so, ok := c.sortOfGround(n.text); ok {
				return c.atomFor(Term{n.text, so}).S
			}
			return n.text
		}
		parts := make([]string, len(n.kids))
		for i, k := range n.kids {
			parts[i] = render(k)
		}
		return "(" + strings.Join(parts, " ") + ")"
	}
	return Term{render(root), t.Sort}
}

var declRe = regexp.MustCompile(`^\((declare-const|define-fun|declare-fun) ([^ ]+) `)

// symSort returns the (result) sort of a declared or defined symbol.
func (c *Ctx) symSort(name string) (Sort, bool) {
	if c.symSorts == nil {
		c.symSorts = map[string]Sort{}
	}
	for ; c.symScanned < len(c.prelude); c.symScanned++ {
		l := c.prelude[c.symScanned]
		m := declRe.FindStringSubmatch(l)
		if m == nil {
			continue
		}
		rest := l[len(m[0]):]
		switch m[1] {
		case "declare-const":
			c.symSorts[m[2]] = Sort(strings.TrimSuffix(strings.TrimSpace(stripComment(rest)), ")"))
		default:
			// skip the parameter list, then read one sort s-expression
			d, i := 0, 0
			for i < len(rest) {
				if rest[i] == '(' {
					d++
				} else if rest[i] == ')' {
					d--
					if d == 0 {
						i++
						break
					}
				}
				i++
			}
			rest = strings.TrimSpace(rest[i:])
			j := 0
			if strings.HasPrefix(rest, "(") {
				d = 0
				for j < len(rest) {
					if rest[j] == '(' {
						d++
					} else if rest[j] == ')' {
						d--
						if d == 0 {
							j++
							break
						}
					}
					j++
				}
			} else {
				for j < len(rest) && rest[j] != ' ' && rest[j] != ')' {
					j++
				}
			}
			c.symSorts[m[2]] = Sort(rest[:j])
		}
	}
	so, ok := c.symSorts[name]
	return so, ok
}

func stripComment(s string) string {
	if i := strings.Index(s, ";"); i >= 0 {
		return s[:i]
	}
	return s
}

var intLitRe = regexp.MustCompile(`^[0-9]+$`)

// sortOfGround infers the sort of a ground term given as text (enough of
// SMT-LIB for the terms the engine builds; false when unsure).
func (c *Ctx) sortOfGround(text string) (Sort, bool) {
	text = strings.TrimSpace(text)
	if !strings.HasPrefix(text, "(") {
		if intLitRe.MatchString(text) {
			return SInt, true
		}
		if text == "true" || text == "false" {
			return SBool, true
		}
		return c.symSort(text)
	}
	// split head and arguments
	inner := text[1 : len(text)-1]
	var parts []string
	d, start := 0, -1
	for i := 0; i <= len(inner); i++ {
		if i == len(inner) || (d == 0 && (inner[i] == ' ' || inner[i] == '\n')) {
			if start >= 0 {
				parts = append(parts, inner[start:i])
				start = -1
			}
			continue
		}
		if start < 0 {
			start = i
		}
		if inner[i] == '(' {
			d++
		} else if inner[i] == ')' {
			d--
		}
	}
	if len(parts) == 0 {
		return "", false
	}
	switch parts[0] {
	case "+", "-", "*", "div", "mod", "abs":
		return SInt, true
	case "and", "or", "not", "=>", "=", "<", "<=", ">", ">=", "distinct":
		return SBool, true
	case "ite":
		if len(parts) == 4 {
			if so, ok := c.sortOfGround(parts[2]); ok {
				return so, true
			}
			return c.sortOfGround(parts[3])
		}
	case "store":
		if len(parts) == 4 {
			return c.sortOfGround(parts[1])
		}
	case "select":
		if len(parts) == 3 {
			if so, ok := c.sortOfGround(parts[1]); ok {
				str := string(so)
				if strings.HasPrefix(str, "(Array Int ") && strings.HasSuffix(str, ")") {
					return Sort(str[len("(Array Int ") : len(str)-1]), true
				}
			}
		}
	default:
		return c.symSort(parts[0])
	}
	return "", false
}

// assertDef emits a definitional axiom about a fresh symbol; queries include
// it only when the symbol is in the cone of influence of the obligation.
func (c *Ctx) assertDef(sym Term, t Term) {
	if t.IsTrue() {
		return
	}
	c.subject[len(c.prelude)] = sym.S
	c.emit("(assert " + t.S + ")")
}

func (c *Ctx) assert(t Term) {
	if t.IsTrue() {
		return
	}
	c.emit("(assert " + t.S + ")")
}

func (c *Ctx) freshLeaves(prefix string, t types.Type) []Term {
	lay := layout(t)
	out := make([]Term, len(lay))
	for i, l := range lay {
		p := prefix
		if len(lay) > 1 {
			p = fmt.Sprintf("%s.%d", prefix, i)
			if l.Role != "" {
				p = fmt.Sprintf("%s.%d%s", prefix, i, l.Role)
			}
		}
		out[i] = c.fresh(p, l.Sort)
	}
	return out
}

func (c *Ctx) heapSort(key string, leaf Leaf) Sort {
	if strings.HasPrefix(key, "A|") {
		return ArrSort(SInt, ArrSort(SInt, leaf.Sort))
	}
	return ArrSort(SInt, leaf.Sort)
}

// heapInit returns the initial (function entry) heap constant of a key.
func (c *Ctx) heapInit(gen int, key string, sort Sort) Term {
	gk := fmt.Sprintf("%d|%s", gen, key)
	if t, ok := c.heap0[gk]; ok {
		return t
	}
	name := fmt.Sprintf("H%d_%s", gen, smtSym(key))
	if !c.declared[name] {
		c.declared[name] = true
		c.emit(fmt.Sprintf("(declare-const %s %s)", name, sort))
	}
	t := Term{name, sort}
	c.heap0[gk] = t
	if gen == 0 && c.alloc0.S != "" {
		c.heapAlloc[name] = c.alloc0
	} else if a, ok := c.genAlloc[gen]; ok {
		c.heapAlloc[name] = a
	}
	return t
}

func (c *Ctx) strConst(s string) Term {
	if s == "" {
		return Term{"str_empty", SStr}
	}
	if t, ok := c.strConsts[s]; ok {
		return t
	}
	name := fmt.Sprintf("strc!%d", len(c.strConsts)+1)
	c.emit(fmt.Sprintf("(declare-const %s Str) ; %q", name, s))
	t := Term{name, SStr}
	var cs []Term
	cs = append(cs, Eq(app(SInt, "slen", t), IntLit(int64(len(s)))))
	for i := 0; i < len(s); i++ {
		cs = append(cs, Eq(app(SInt, "sat", t, IntLit(int64(i))), IntLit(int64(s[i]))))
	}
	c.assert(And(cs...))
	// distinct from the other constants
	for o, ot := range c.strConsts {
		if o != s {
			c.assert(Not(Eq(t, ot)))
		}
	}
	c.assert(Not(Eq(t, Term{"str_empty", SStr})))
	c.strConsts[s] = t
	return t
}

func (c *Ctx) typeID(t types.Type) Term {
	k := types.TypeString(t, nil)
	id, ok := c.typeIDs[k]
	if !ok {
		id = c.eng.typeID(k)
		c.typeIDs[k] = id
	}
	return IntLit(int64(id))
}

func (c *Ctx) newCell(t types.Type, name string) *Cell {
	c.cellN++
	return &Cell{ID: c.cellN, Typ: t, Name: name}
}

func (c *Ctx) oblName(fn, kind string) string {
	base := fn + "/" + kind
	n := c.oblCount[base]
	c.oblCount[base] = n + 1
	if n == 0 && !strings.Contains(kind, "#") && (kind == "cover-pre") {
		return base
	}
	return fmt.Sprintf("%s#%d", base, n)
}

func (c *Ctx) addObl(o *Obligation) {
	o.Prefix = len(c.prelude)
	if o.Expect == "" {
		o.Expect = "unsat"
	}
	o.Props = c.props
	o.Block = c.block
	c.obls = append(c.obls, o)
}

func (c *Ctx) note(kind, s string) {
	switch kind {
	case "assumed":
		c.assumed[s] = true
	case "abstracted":
		c.abstracted[s] = true
	}
}

func sortedKeys(m map[string]bool) []string {
	var out []string
	for k := range m {
		out = append(out, k)
	}
	sort.Strings(out)
	return out
}

// query renders the SMT-LIB text for an obligation.
func (c *Ctx) query(o *Obligation, withModel bool) string {
	var b strings.Builder
	if withModel {
		b.WriteString("(set-option :produce-models true)\n")
	}
	b.WriteString("(set-logic ALL)\n")
	keep := c.cone(o)
	for i, l := range c.prelude[:o.Prefix] {
		if !keep[i] {
			continue
		}
		b.WriteString(l)
		b.WriteByte('\n')
	}
	b.WriteString("(assert " + o.Reach.S + ")\n")
	if o.Expect == "unsat" {
		b.WriteString("(assert (not " + o.Goal.S + "))\n")
	}
	b.WriteString("(check-sat)\n")
	if withModel && len(c.inputs) > 0 {
		b.WriteString("(get-value (")
		for _, in := range c.inputs {
			b.WriteString(in.Const + " ")
		}
		b.WriteString("))\n")
	}
	return b.String()
}

var symRe = regexp.MustCompile(`[A-Za-z_][A-Za-z0-9_.!$#@]*`)

// cone computes which prelude lines an obligation's query needs: everything
// except definitional axioms (assertDef) whose subject symbol is not reachable
// from the goal and path condition through definitions.
func (c *Ctx) cone(o *Obligation) []bool {
	n := o.Prefix
	keep := make([]bool, n)
	defBody := map[string]int{}
	var tagged []int
	for i := 0; i < n; i++ {
		l := c.prelude[i]
		if _, ok := c.subject[i]; ok {
			tagged = append(tagged, i)
			continue
		}
		keep[i] = true
		if strings.HasPrefix(l, "(define-fun ") {
			rest := l[len("(define-fun "):]
			if j := strings.IndexByte(rest, ' '); j > 0 {
				defBody[rest[:j]] = i
			}
		}
	}
	if len(tagged) == 0 {
		return keep
	}
	rel := map[string]bool{}
	var work []string
	addSyms := func(text string) {
		for _, m := range symRe.FindAllString(text, -1) {
			if !rel[m] {
				rel[m] = true
				work = append(work, m)
			}
		}
	}
	addSyms(o.Reach.S)
	addSyms(o.Goal.S)
	done := map[int]bool{}
	for {
		for len(work) > 0 {
			s := work[len(work)-1]
			work = work[:len(work)-1]
			if i, ok := defBody[s]; ok && !done[i] {
				done[i] = true
				addSyms(c.prelude[i])
			}
		}
		progress := false
		for _, i := range tagged {
			if !keep[i] && rel[c.subject[i]] {
				keep[i] = true
				addSyms(c.prelude[i])
				progress = true
			}
		}
		if !progress {
			break
		}
	}
	return keep
}

// ---- path conditions as a DAG of named conjunctions / disjunctions ----

type reachNode struct {
	prev string
	fact Term
	ors  []string
}

func (c *Ctx) reachAnd(prev Term, fact Term) Term {
	if fact.IsTrue() {
		return prev
	}
	if prev.IsFalse() || fact.IsFalse() {
		return TFalse
	}
	for _, q := range c.quantVars {
		if strings.Contains(fact.S, q) || strings.Contains(prev.S, q) {
			return And(prev, fact)
		}
	}
	if c.specDepth > 0 {
		return And(prev, fact)
	}
	name := c.freshName("reach")
	c.emit(fmt.Sprintf("(define-fun %s () Bool %s)", name, And(prev, fact).S))
	c.reachNodes[name] = &reachNode{prev: prev.S, fact: fact}
	return Term{name, SBool}
}

func (c *Ctx) reachOr(rs []Term) Term {
	t := Or(rs...)
	if t.IsTrue() || t.IsFalse() || len(rs) == 1 || c.specDepth > 0 {
		return t
	}
	for _, q := range c.quantVars {
		if strings.Contains(t.S, q) {
			return t
		}
	}
	name := c.freshName("reach")
	c.emit(fmt.Sprintf("(define-fun %s () Bool %s)", name, t.S))
	var ors []string
	for _, r := range rs {
		ors = append(ors, r.S)
	}
	c.reachNodes[name] = &reachNode{ors: ors}
	return Term{name, SBool}
}

// specific symbols: engine-generated names other than inputs and allocation
// frontiers; they identify "what a fact is about".
func specificSym(s string) bool {
	if !strings.Contains(s, "!") {
		return false
	}
	if strings.HasPrefix(s, "in_") || strings.HasPrefix(s, "alloc0") || strings.HasPrefix(s, "fv_") {
		return false
	}
	return true
}

// slicedQuery renders the obligation with the path condition restricted to
// the conjuncts in the cone of influence of the goal. Dropping conjuncts only
// weakens the hypotheses, so "unsat" remains a proof; "sat" is only a
// candidate counterexample.
func (c *Ctx) slicedQuery(o *Obligation, withModel bool) string {
	// definition bodies
	defs := map[string]string{}
	for i := 0; i < o.Prefix; i++ {
		l := c.prelude[i]
		if strings.HasPrefix(l, "(define-fun ") {
			rest := l[len("(define-fun "):]
			if j := strings.IndexByte(rest, ' '); j > 0 {
				defs[rest[:j]] = l
			}
		}
	}
	for i, sub := range c.subject {
		if i < o.Prefix {
			defs[sub] += " " + c.prelude[i]
		}
	}
	closureMemo := map[string]map[string]bool{}
	var closure func(text string, depth int) map[string]bool
	closure = func(text string, depth int) map[string]bool {
		out := map[string]bool{}
		for _, m := range symRe.FindAllString(text, -1) {
			if !specificSym(m) || out[m] {
				continue
			}
			if _, isReach := c.reachNodes[m]; isReach {
				continue
			}
			out[m] = true
			if body, ok := defs[m]; ok && depth < 40 {
				sub, have := closureMemo[m]
				if !have {
					closureMemo[m] = map[string]bool{}
					sub = closure(body, depth+1)
					closureMemo[m] = sub
				}
				for k := range sub {
					out[k] = true
				}
			}
		}
		return out
	}
	// collect the facts of the DAG under o.Reach
	type factRec struct {
		node string
		syms map[string]bool
		keep bool
	}
	var facts []*factRec
	byNode := map[string]*factRec{}
	seen := map[string]bool{}
	var walk func(n string)
	walk = func(n string) {
		if seen[n] {
			return
		}
		seen[n] = true
		rn, ok := c.reachNodes[n]
		if !ok {
			return
		}
		if rn.ors != nil {
			for _, o2 := range rn.ors {
				walk(o2)
			}
			return
		}
		fr := &factRec{node: n, syms: closure(rn.fact.S, 0)}
		facts = append(facts, fr)
		byNode[n] = fr
		walk(rn.prev)
	}
	walk(o.Reach.S)
	rel := closure(o.Goal.S, 0)
	for changed := true; changed; {
		changed = false
		for _, fr := range facts {
			if fr.keep {
				continue
			}
			hit := len(fr.syms) == 0
			for s := range fr.syms {
				if rel[s] {
					hit = true
					break
				}
			}
			if hit {
				fr.keep = true
				changed = true
				for s := range fr.syms {
					rel[s] = true
				}
			}
		}
	}
	// rebuild sliced reach definitions
	var extra []string
	memo := map[string]string{}
	var build func(n string) string
	build = func(n string) string {
		if r, ok := memo[n]; ok {
			return r
		}
		rn, ok := c.reachNodes[n]
		if !ok {
			memo[n] = n
			return n
		}
		var res string
		if rn.ors != nil {
			var parts []Term
			for _, o2 := range rn.ors {
				parts = append(parts, Term{build(o2), SBool})
			}
			t := Or(parts...)
			name := "s" + n
			extra = append(extra, fmt.Sprintf("(define-fun %s () Bool %s)", name, t.S))
			res = name
		} else {
			p := build(rn.prev)
			if byNode[n].keep {
				name := "s" + n
				extra = append(extra, fmt.Sprintf("(define-fun %s () Bool %s)", name, And(Term{p, SBool}, rn.fact).S))
				res = name
			} else {
				res = p
			}
		}
		memo[n] = res
		return res
	}
	sliced := build(o.Reach.S)
	var b strings.Builder
	if withModel {
		b.WriteString("(set-option :produce-models true)\n")
	}
	b.WriteString("(set-logic ALL)\n")
	o2 := *o
	o2.Reach = Term{sliced, SBool}
	// cone over definitional axioms uses the sliced reach text
	var sb strings.Builder
	for _, e := range extra {
		sb.WriteString(e)
	}
	o2.Reach = Term{sliced + " " + sb.String(), SBool}
	keep := c.cone(&o2)
	for i, l := range c.prelude[:o.Prefix] {
		if !keep[i] {
			continue
		}
		b.WriteString(l)
		b.WriteByte('\n')
	}
	for _, e := range extra {
		b.WriteString(e)
		b.WriteByte('\n')
	}
	b.WriteString("(assert " + sliced + ")\n")
	if o.Expect == "unsat" {
		b.WriteString("(assert (not " + o.Goal.S + "))\n")
	}
	b.WriteString("(check-sat)\n")
	if withModel && len(c.inputs) > 0 {
		b.WriteString("(get-value (")
		for _, in := range c.inputs {
			b.WriteString(in.Const + " ")
		}
		b.WriteString("))\n")
	}
	return b.String()
}

// shiftView returns the 0-based view of a content array at offset off.
func (c *Ctx) shiftView(arr Term, off Term) Term {
	if off.S == "0" || off.S == "" {
		return arr
	}
	es := elemSort(arr.Sort)
	fn := "shift_" + smtSym(string(es))
	if !c.declared[fn] {
		c.declared[fn] = true
		c.emit(fmt.Sprintf("(declare-fun %s (%s Int) %s)", fn, arr.Sort, arr.Sort))
		c.emit(fmt.Sprintf("(assert (forall ((a %s) (o Int) (j Int)) (! (= (select (%s a o) j) (select a (+ o j))) :pattern ((select (%s a o) j)))))", arr.Sort, fn, fn))
		// inverse direction: a read of the underlying array is a read of every existing view of it
		c.emit(fmt.Sprintf("(assert (forall ((a %s) (o Int) (j Int)) (! (= (select a j) (select (%s a o) (- j o))) :pattern ((%s a o) (select a j)))))", arr.Sort, fn, fn))
	}
	return app(arr.Sort, fn, arr, off)
}
