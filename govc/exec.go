package main

// Instruction semantics.

import (
	"os"
	"fmt"
	"go/ast"
	"strings"
	"go/constant"
	"go/token"
	"go/types"
	"math/big"

	"golang.org/x/tools/go/ssa"
)

type unsupportedErr struct{ msg string }

func (c *Ctx) unsupported(f *Frame, what string) {
	panic(unsupportedErr{fmt.Sprintf("%s: unsupported: %s", f.fn.String(), what)})
}

func (f *Frame) get(v ssa.Value) []Term {
	if t, ok := f.vals[v]; ok {
		return t
	}
	c := f.ctx
	switch v := v.(type) {
	case *ssa.Const:
		return c.constLeaves(v)
	case *ssa.Function:
		return []Term{IntLit(int64(c.eng.funcID(v)))}
	case *ssa.Global:
		return []Term{c.globalRef(v)}
	case *ssa.Builtin:
		return []Term{IntLit(0)}
	case *ssa.FreeVar:
		for i, fv := range f.fn.FreeVars {
			if fv == v {
				return f.bindings[i]
			}
		}
	case *ssa.Parameter:
		for i, p := range f.fn.Params {
			if p == v {
				return f.argVals[i]
			}
		}
	}
	panic(fmt.Sprintf("%s: value %s (%T) not defined", f.fn.String(), v.Name(), v))
}

func (c *Ctx) globalRef(g *ssa.Global) Term {
	name := "glob_" + smtSym(g.Pkg.Pkg.Path()+"."+g.Name())
	if t, ok := c.globals[name]; ok {
		return t
	}
	id := c.eng.globalID(g)
	t := IntLit(int64(id))
	c.globals[name] = t
	return t
}

func (c *Ctx) constLeaves(k *ssa.Const) []Term {
	t := k.Type()
	if k.Value == nil {
		return zeroLeaves(t)
	}
	switch k.Value.Kind() {
	case constant.Bool:
		return []Term{BoolLit(constant.BoolVal(k.Value))}
	case constant.String:
		return []Term{c.strConst(constant.StringVal(k.Value))}
	case constant.Int:
		bi, ok := new(big.Int).SetString(k.Value.ExactString(), 10)
		if !ok {
			panic("bad int const")
		}
		if b, isB := t.Underlying().(*types.Basic); isB && b.Info()&types.IsFloat != 0 {
			return []Term{c.fresh("floatconst", SInt)}
		}
		return []Term{BigLit(bi)}
	case constant.Float, constant.Complex:
		return []Term{c.fresh("floatconst", SInt)}
	}
	panic("unsupported constant")
}

func (f *Frame) set(v ssa.Value, ts []Term) {
	if len(ts) != len(layout(v.Type())) {
		panic(fmt.Sprintf("%s: set %s: %d leaves for %v", f.fn, v.Name(), len(ts), v.Type()))
	}
	f.vals[v] = ts
}

func (f *Frame) fresh(v ssa.Value, st *State) []Term {
	ts := f.ctx.freshLeaves(v.Name(), v.Type())
	f.ctx.assumeFact(st, typeInv(v.Type(), ts))
	return ts
}

// obligation helper for run-time checks
func (f *Frame) check(st *State, kind string, pos token.Pos, text string, goal Term) {
	if f.spec {
		return
	}
	c := f.ctx
	if c.block != nil && c.block.Flags["nosafety"] {
		st.assume(c, goal)
		return
	}
	if c.block != nil && f.topFrame().fn == c.block.Target {
		if reason, ok := c.block.AssumeKinds[kind]; ok {
			c.note("assumed", kind+" checks in "+f.label+" assumed: "+reason)
			st.assume(c, goal)
			return
		}
	}
	if !goal.IsTrue() {
		c.addObl(&Obligation{Name: c.oblName(f.label, kind), Kind: kind, Fn: f.label, Pos: f.posOf(pos), Text: text, Reach: st.Reach, Goal: goal})
	}
	st.assume(c, goal)
}

func (f *Frame) exec(in ssa.Instruction, st *State) {
	c := f.ctx
	if f.top && f.block != nil && len(f.block.At) > 0 {
		if _, isDbg := in.(*ssa.DebugRef); !isDbg {
			f.runAtClauses(in, st)
		}
	}
	switch in := in.(type) {
	case *ssa.DebugRef:
		if id, ok := in.Expr.(*ast.Ident); ok && f.top {
			if f.localVals == nil {
				f.localVals = map[string]ssa.Value{}
				f.localAddr = map[string]bool{}
			}
			f.localVals[id.Name] = in.X
			f.localAddr[id.Name] = in.IsAddr
		}
		return
	case *ssa.Alloc:
		f.execAlloc(in, st)
	case *ssa.Store:
		sh := c.shapeOf(f.get(in.Addr)[0], in.Addr.Type())
		f.nilCheck(st, sh, in.Pos(), "store through nil pointer")
		if f.spec && sh.Kind != pLocal {
			c.unsupported(f, "heap store in specification code")
		}
		if sh.Kind != pLocal {
			// a reference stored into the heap may be reached by any later callee
			for _, t := range f.get(in.Val) {
				if f.leaked == nil {
					f.leaked = map[string]bool{}
				}
				f.leaked[t.S] = true
			}
		}
		c.store(st, sh, f.get(in.Val))
	case *ssa.UnOp:
		f.execUnOp(in, st)
	case *ssa.BinOp:
		f.set(in, f.binop(in, st))
	case *ssa.Convert:
		f.set(in, f.convert(in, st))
	case *ssa.ChangeType:
		f.set(in, f.get(in.X))
		if sh, ok := c.shapes[f.get(in.X)[0].S]; ok {
			_ = sh
		}
	case *ssa.ChangeInterface:
		f.set(in, f.get(in.X))
	case *ssa.MakeInterface:
		f.set(in, f.makeInterface(in, st))
	case *ssa.TypeAssert:
		f.execTypeAssert(in, st)
	case *ssa.FieldAddr:
		base := f.get(in.X)[0]
		sh := c.shapeOf(base, in.X.Type())
		f.nilCheck(st, sh, in.Pos(), "field access through nil pointer")
		stt := deref(in.X.Type()).Underlying().(*types.Struct)
		nsh := *sh
		nsh.Off = sh.Off + fieldOffset(stt, in.Field)
		nsh.Typ = stt.Field(in.Field).Type()
		f.set(in, []Term{c.newShapePtr(&nsh, in.Name())})
	case *ssa.Field:
		stt := in.X.Type().Underlying().(*types.Struct)
		off := fieldOffset(stt, in.Field)
		n := len(layout(stt.Field(in.Field).Type()))
		f.set(in, f.get(in.X)[off:off+n])
	case *ssa.IndexAddr:
		f.execIndexAddr(in, st)
	case *ssa.Index:
		f.execIndex(in, st)
	case *ssa.Lookup:
		f.execLookup(in, st)
	case *ssa.Slice:
		f.execSlice(in, st)
	case *ssa.MakeSlice:
		ln := f.get(in.Len)[0]
		cp := f.get(in.Cap)[0]
		f.check(st, "bounds", in.Pos(), "make: len in range", And(Ge(ln, IntLit(0)), Le(ln, cp)))
		el := in.Type().Underlying().(*types.Slice).Elem()
		r := c.allocArray(st, el)
		f.set(in, []Term{r, IntLit(0), ln, cp})
	case *ssa.MakeMap:
		r := c.allocRef(st)
		c.mapInit(st, in.Type(), r)
		f.set(in, []Term{r})
	case *ssa.MapUpdate:
		f.execMapUpdate(in, st)
	case *ssa.MakeChan:
		f.set(in, []Term{c.allocRef(st)})
	case *ssa.Range:
		f.execRange(in, st)
	case *ssa.Next:
		f.execNext(in, st)
	case *ssa.Extract:
		tup := in.Tuple.Type().(*types.Tuple)
		off := 0
		for i := 0; i < in.Index; i++ {
			off += len(layout(tup.At(i).Type()))
		}
		n := len(layout(tup.At(in.Index).Type()))
		src := f.get(in.Tuple)
		f.set(in, src[off:off+n])
		// propagate pointer shapes
	case *ssa.Phi:
		return
	case *ssa.If, *ssa.Jump:
		return
	case *ssa.Return:
		f.execReturn(in, st)
	case *ssa.Panic:
		f.execPanic(in, st)
	case *ssa.Call:
		res := f.call(in, &in.Call, st)
		if !st.dead() {
			f.set(in, res)
		}
	case *ssa.MakeClosure:
		f.execMakeClosure(in, st)
	case *ssa.Defer:
		if f.spec {
			c.unsupported(f, "defer in specification code")
		}
		st.Defers = append(st.Defers, deferRec{instr: in, frame: f})
	case *ssa.RunDefers:
		f.runDefers(st)
	case *ssa.Go:
		c.note("abstracted", f.fn.String()+": go statement (goroutine not modelled)")
		f.escapeArgs(&in.Call, st)
	case *ssa.Send:
		c.note("abstracted", f.fn.String()+": channel send (not modelled)")
	case *ssa.Select:
		c.note("abstracted", f.fn.String()+": select (outcome nondeterministic)")
		f.set(in, f.fresh(in, st))
	case *ssa.SliceToArrayPointer, *ssa.MultiConvert:
		c.unsupported(f, fmt.Sprintf("%T", in))
	default:
		c.unsupported(f, fmt.Sprintf("instruction %T", in))
	}
}

func (f *Frame) nilCheck(st *State, sh *PtrShape, pos token.Pos, text string) {
	if sh.Kind == pObj {
		f.check(st, "nil", pos, text, Not(Eq(sh.Ref, IntLit(0))))
	}
}

func (f *Frame) execAlloc(in *ssa.Alloc, st *State) {
	c := f.ctx
	t := deref(in.Type())
	if arr, ok := t.Underlying().(*types.Array); ok {
		r := c.allocArray(st, arr.Elem())
		sh := &PtrShape{Kind: pElem, Ref: r, Idx: IntLit(0), Root: arr.Elem(), Off: 0, Typ: t}
		f.set(in, []Term{c.newShapePtr(sh, in.Name())})
		return
	}
	if f.spec || !c.eng.escapes(in) {
		cell := c.newCell(t, in.Comment)
		st.Cells[cell] = zeroLeaves(t)
		sh := &PtrShape{Kind: pLocal, Cell: cell, Root: t, Off: 0, Typ: t}
		f.set(in, []Term{c.newShapePtr(sh, in.Name())})
		return
	}
	r := c.allocObj(st, t)
	f.localObjs = append(f.localObjs, localObj{r, t})
	f.set(in, []Term{r})
	if n, ok := t.(*types.Named); ok && n.Obj().Pkg() != nil && n.Obj().Pkg().Path() == "strings" && n.Obj().Name() == "Builder" {
		// a zero strings.Builder is empty
		g := c.heapGet(st, ghostBuilder, ArrSort(SInt, SStr))
		c.setHeap(st, ghostBuilder, c.define("ghost", Store(g, r, Term{"str_empty", SStr})))
	}
}

func (f *Frame) execUnOp(in *ssa.UnOp, st *State) {
	c := f.ctx
	x := f.get(in.X)
	switch in.Op {
	case token.MUL: // load
		sh := c.shapeOf(x[0], in.X.Type())
		f.nilCheck(st, sh, in.Pos(), "load through nil pointer")
		f.set(in, c.load(st, sh))
		if g, ok := in.X.(*ssa.Global); ok && g.Pkg != nil && !strings.HasPrefix(g.Pkg.Pkg.Path(), modulePath) && types.IsInterface(in.Type()) && (strings.HasPrefix(g.Name(), "Err") || g.Name() == "EOF") {
			c.note("assumed", "exported error variables of dependencies ("+g.Pkg.Pkg.Name()+"."+g.Name()+", ...) are non-nil")
			if f.spec {
				// in specification code path conditions become ite conditions; state the assumption as a side fact
				c.addFactOrAssert(Not(Eq(f.vals[in][0], IntLit(0))))
			} else {
				st.assume(c, Not(Eq(f.vals[in][0], IntLit(0))))
			}
		}
	case token.NOT:
		f.set(in, []Term{Not(x[0])})
	case token.SUB:
		r := Sub(IntLit(0), x[0])
		f.set(in, []Term{f.wrap(r, in.Type(), st, in.Pos(), "negation")})
	case token.XOR:
		if bits, ok := isUnsigned(in.Type()); ok {
			f.set(in, []Term{Sub(BigLit(new(big.Int).Sub(pow2(bits), big.NewInt(1))), x[0])})
		} else {
			f.set(in, []Term{Sub(IntLit(-1), x[0])})
		}
	case token.ARROW:
		c.note("abstracted", f.fn.String()+": channel receive (value nondeterministic)")
		f.set(in, f.fresh(in, st))
		// a receive from a named local channel variable is recorded as the
		// event "recv:<name>" (read by __called): ordering contracts can
		// require that a function waited for a goroutine it started
		if !f.spec && !st.dead() {
			name := ""
			switch x := in.X.(type) {
			case *ssa.UnOp:
				if a, ok := x.X.(*ssa.Alloc); ok && x.Op == token.MUL {
					name = a.Comment
				}
			case *ssa.MakeChan:
				if refs := x.Referrers(); refs != nil {
					for _, r := range *refs {
						if dr, ok := r.(*ssa.DebugRef); ok {
							if id, ok := dr.Expr.(*ast.Ident); ok {
								name = id.Name
							}
						}
					}
				}
			}
			if name != "" {
				if st.Ghost == nil {
					st.Ghost = map[string]Term{}
				}
				st.Ghost["called:recv:"+name] = TTrue
				st.Ghost["failed:recv:"+name] = TFalse
			}
		}
	default:
		c.unsupported(f, "unop "+in.Op.String())
	}
}

// wrap applies the machine semantics of the result type to a mathematical term.
func (f *Frame) wrap(t Term, typ types.Type, st *State, pos token.Pos, what string) Term {
	if bits, ok := isUnsigned(typ); ok {
		return f.ctx.define("w", Mod(t, BigLit(pow2(bits))))
	}
	if bits, ok := isSigned(typ); ok {
		lo := BigLit(new(big.Int).Neg(pow2(bits - 1)))
		hi := BigLit(new(big.Int).Sub(pow2(bits-1), big.NewInt(1)))
		if f.ctx.block != nil && f.ctx.block.Flags["overflow"] && !f.spec {
			t = f.ctx.define("ar", t)
			f.check(st, "overflow", pos, "signed "+what+" does not overflow", And(Le(lo, t), Le(t, hi)))
		} else if !f.spec {
			f.ctx.note("assumed", "signed integer arithmetic treated as mathematical (no overflow obligation) in "+f.label)
		}
	}
	return t
}

func (f *Frame) binop(in *ssa.BinOp, st *State) []Term {
	c := f.ctx
	x := f.get(in.X)
	y := f.get(in.Y)
	xt := in.X.Type()
	switch in.Op {
	case token.EQL, token.NEQ:
		eq := f.equal(xt, x, y)
		if in.Op == token.NEQ {
			eq = Not(eq)
		}
		return []Term{eq}
	}
	// strings
	if b, ok := xt.Underlying().(*types.Basic); ok && b.Info()&types.IsString != 0 {
		switch in.Op {
		case token.ADD:
			return []Term{c.strConcat(x[0], y[0])}
		case token.LSS, token.LEQ, token.GTR, token.GEQ:
			c.note("abstracted", f.fn.String()+": string ordering comparison")
			return []Term{c.fresh("strcmp", SBool)}
		}
	}
	if b, ok := xt.Underlying().(*types.Basic); ok && b.Info()&types.IsBoolean != 0 {
		switch in.Op {
		case token.AND:
			return []Term{And(x[0], y[0])}
		case token.OR:
			return []Term{Or(x[0], y[0])}
		}
	}
	if b, ok := xt.Underlying().(*types.Basic); ok && b.Info()&types.IsFloat != 0 {
		c.note("abstracted", f.fn.String()+": floating point")
		return f.fresh(in, st)
	}
	a, b2 := x[0], y[0]
	switch in.Op {
	case token.ADD:
		return []Term{f.wrap(Add(a, b2), in.Type(), st, in.Pos(), "addition")}
	case token.SUB:
		return []Term{f.wrap(Sub(a, b2), in.Type(), st, in.Pos(), "subtraction")}
	case token.MUL:
		return []Term{f.wrap(Mul(a, b2), in.Type(), st, in.Pos(), "multiplication")}
	case token.QUO:
		f.check(st, "div0", in.Pos(), "division by zero", Not(Eq(b2, IntLit(0))))
		return []Term{c.define("q", goDiv(a, b2, in.Type()))}
	case token.REM:
		f.check(st, "div0", in.Pos(), "division by zero", Not(Eq(b2, IntLit(0))))
		return []Term{c.define("r", goRem(a, b2, in.Type()))}
	case token.LSS:
		return []Term{Lt(a, b2)}
	case token.LEQ:
		return []Term{Le(a, b2)}
	case token.GTR:
		return []Term{Gt(a, b2)}
	case token.GEQ:
		return []Term{Ge(a, b2)}
	case token.SHL:
		if k, ok := b2.intConst(); ok && k.IsInt64() && k.Int64() < 64 {
			return []Term{f.wrapNoCheck(Mul(a, BigLit(pow2(uint(k.Int64())))), in.Type())}
		}
	case token.SHR:
		if k, ok := b2.intConst(); ok && k.IsInt64() && k.Int64() < 64 {
			return []Term{Div(a, BigLit(pow2(uint(k.Int64()))))} // floor division = arithmetic shift
		}
	case token.AND:
		if k, ok := b2.intConst(); ok {
			k1 := new(big.Int).Add(k, big.NewInt(1))
			if k.Sign() >= 0 && k1.BitLen() > 0 && new(big.Int).And(k1, k).Sign() == 0 {
				// mask 2^n-1
				if _, uns := isUnsigned(in.Type()); uns {
					return []Term{Mod(a, BigLit(k1))}
				}
				return []Term{Mod(a, BigLit(k1))}
			}
		}
	case token.OR:
	case token.XOR:
	case token.AND_NOT:
	}
	// abstracted bit operation: uninterpreted with range invariant
	c.note("abstracted", fmt.Sprintf("%s: bit operation %s abstracted", f.fn.String(), in.Op))
	uf := "bitop_" + smtSym(in.Op.String())
	if !c.declared[uf] {
		c.declared[uf] = true
		c.emit(fmt.Sprintf("(declare-fun %s (Int Int) Int)", uf))
	}
	r := c.define("bit", app(SInt, uf, a, b2))
	c.assumeFact(st, typeInv(in.Type(), []Term{r}))
	if in.Op == token.OR || in.Op == token.XOR || in.Op == token.AND {
		// bounds for non-negative operands
		if _, uns := isUnsigned(in.Type()); uns && in.Op == token.AND {
			st.assume(c, And(Le(r, a), Le(r, b2)))
		}
		// non-negative operands: a|b = a + b - (a&b) and a^b = a + b - 2(a&b) with 0 <= a&b <= min(a,b)
		nonneg := And(Ge(a, IntLit(0)), Ge(b2, IntLit(0)))
		switch in.Op {
		case token.OR:
			st.assume(c, Implies(nonneg, And(Ge(r, a), Ge(r, b2), Le(r, Add(a, b2)))))
		case token.XOR:
			st.assume(c, Implies(nonneg, And(Ge(r, IntLit(0)), Le(r, Add(a, b2)))))
		case token.AND:
			st.assume(c, Implies(nonneg, And(Ge(r, IntLit(0)), Le(r, a), Le(r, b2))))
		}
	}
	return []Term{r}
}

func (f *Frame) wrapNoCheck(t Term, typ types.Type) Term {
	if bits, ok := isUnsigned(typ); ok {
		return f.ctx.define("w", Mod(t, BigLit(pow2(bits))))
	}
	if bits, ok := isSigned(typ); ok {
		// two's complement wrap of a shifted value
		m := BigLit(pow2(bits))
		h := BigLit(pow2(bits - 1))
		return f.ctx.define("w", Sub(Mod(Add(t, h), m), h))
	}
	return t
}

// goDiv: Go's division truncates toward zero; SMT-LIB's div is Euclidean.
func goDiv(a, b Term, t types.Type) Term {
	if _, ok := isUnsigned(t); ok {
		return Div(a, b)
	}
	// trunc(a/b) = ite(a >= 0, a div b, -((-a) div b))   [SMT div floors for b>0, ceilings for b<0 such that remainder >= 0]
	neg := Sub(IntLit(0), a)
	return Ite(Ge(a, IntLit(0)), Div(a, b), Sub(IntLit(0), Div(neg, b)))
}

func goRem(a, b Term, t types.Type) Term {
	if _, ok := isUnsigned(t); ok {
		return Mod(a, b)
	}
	return Sub(a, Mul(b, goDiv(a, b, t)))
}

func (f *Frame) equal(t types.Type, x, y []Term) Term {
	c := f.ctx
	switch u := t.Underlying().(type) {
	case *types.Slice:
		// only comparison with nil is legal
		if isZeroLeaves(y) {
			return Eq(x[0], IntLit(0))
		}
		return Eq(y[0], IntLit(0))
	case *types.Interface:
		_ = u
		if isZeroLeaves(y) {
			return Eq(x[0], IntLit(0))
		}
		if isZeroLeaves(x) {
			return Eq(y[0], IntLit(0))
		}
		return And(Eq(x[0], y[0]), Eq(x[1], y[1]))
	case *types.Basic:
		if u.Info()&types.IsString != 0 {
			return c.strEq(x[0], y[0])
		}
	}
	lay := layout(t)
	var cs []Term
	for i := range x {
		if lay[i].Sort == SStr {
			cs = append(cs, c.strEq(x[i], y[i]))
		} else {
			cs = append(cs, Eq(x[i], y[i]))
		}
	}
	return And(cs...)
}

func isZeroLeaves(ts []Term) bool {
	for _, t := range ts {
		if t.S != "0" && t.S != "false" && t.S != "str_empty" {
			return false
		}
	}
	return true
}

func (f *Frame) convert(in *ssa.Convert, st *State) []Term {
	c := f.ctx
	x := f.get(in.X)
	from, to := in.X.Type().Underlying(), in.Type().Underlying()
	fb, fromBasic := from.(*types.Basic)
	tb, toBasic := to.(*types.Basic)
	switch {
	case fromBasic && toBasic && fb.Info()&types.IsInteger != 0 && tb.Info()&types.IsInteger != 0:
		if bits, ok := isUnsigned(in.Type()); ok {
			// value-preserving when the source range fits
			if lo, hi, ok2 := intRange(in.X.Type()); ok2 {
				l, _ := lo.intConst()
				h, _ := hi.intConst()
				if l.Sign() >= 0 && h.Cmp(pow2(bits)) < 0 {
					return x
				}
			}
			return []Term{c.define("cv", Mod(x[0], BigLit(pow2(bits))))}
		}
		if bits, ok := isSigned(in.Type()); ok {
			if lo, hi, ok2 := intRange(in.X.Type()); ok2 {
				l, _ := lo.intConst()
				h, _ := hi.intConst()
				if l.Cmp(new(big.Int).Neg(pow2(bits-1))) >= 0 && h.Cmp(pow2(bits-1)) < 0 {
					return x
				}
			}
			return []Term{f.wrapNoCheck(x[0], in.Type())}
		}
		return x
	case fromBasic && toBasic && fb.Info()&types.IsString != 0 && tb.Info()&types.IsString != 0:
		return x
	case fromBasic && fb.Info()&types.IsString != 0:
		// string -> []byte / []rune : fresh backing array holding the bytes
		if sl, ok := to.(*types.Slice); ok {
			if eb, ok := sl.Elem().Underlying().(*types.Basic); ok && eb.Kind() == types.Uint8 {
				return c.bytesOfString(st, x[0], sl.Elem())
			}
		}
		c.note("abstracted", f.fn.String()+": string to []rune conversion")
		return f.fresh(in, st)
	case toBasic && tb.Info()&types.IsString != 0:
		if sl, ok := from.(*types.Slice); ok {
			if eb, ok := sl.Elem().Underlying().(*types.Basic); ok && eb.Kind() == types.Uint8 {
				return []Term{c.stringOfBytes(st, x, sl.Elem())}
			}
		}
		if fromBasic && fb.Info()&types.IsInteger != 0 {
			// string(rune): one..four bytes; for values < 0x80 exactly that byte
			if !c.declared["runestr"] {
				c.declared["runestr"] = true
				c.emit("(declare-fun runestr (Int) Str)")
			}
			r := app(SStr, "runestr", x[0])
			st.assume(c, Implies(And(Ge(x[0], IntLit(0)), Lt(x[0], IntLit(128))), And(Eq(app(SInt, "slen", r), IntLit(1)), Eq(app(SInt, "sat", r, IntLit(0)), x[0]))))
			st.assume(c, And(Ge(app(SInt, "slen", r), IntLit(1)), Le(app(SInt, "slen", r), IntLit(4))))
			st.assume(c, Implies(Not(And(Ge(x[0], IntLit(0)), Lt(x[0], IntLit(128)))), Ge(app(SInt, "sat", r, IntLit(0)), IntLit(128))))
			return []Term{r}
		}
		c.note("abstracted", f.fn.String()+": conversion to string")
		return f.fresh(in, st)
	case fromBasic && toBasic:
		// float conversions etc.
		c.note("abstracted", f.fn.String()+": numeric conversion involving floats")
		return f.fresh(in, st)
	}
	// unsafe.Pointer round trips: identity on the reference
	if len(x) == len(layout(in.Type())) {
		if sh, ok := c.shapes[x[0].S]; ok && len(x) == 1 {
			_ = sh
		}
		return x
	}
	c.unsupported(f, fmt.Sprintf("conversion %v -> %v", in.X.Type(), in.Type()))
	return nil
}

func (f *Frame) makeInterface(in *ssa.MakeInterface, st *State) []Term {
	c := f.ctx
	x := f.get(in.X)
	xt := in.X.Type()
	tid := c.typeID(xt)
	if _, ok := xt.Underlying().(*types.Pointer); ok {
		if _, shaped := c.shapes[x[0].S]; shaped {
			c.note("abstracted", f.fn.String()+": interior pointer boxed in an interface")
			return []Term{tid, c.fresh("boxptr", SInt)}
		}
		return []Term{tid, x[0]}
	}
	// value types: an opaque box id whose components are given by box functions
	box := c.fresh("box", SInt)
	lay := layout(xt)
	for i, l := range lay {
		fn := c.boxFn(xt, i, l.Sort)
		st.assume(c, Eq(app(l.Sort, fn, box), x[i]))
	}
	return []Term{tid, box}
}

func (c *Ctx) boxFn(t types.Type, i int, sort Sort) string {
	name := fmt.Sprintf("unbox_%s_%d", smtSym(types.TypeString(t, nil)), i)
	if !c.declared[name] {
		c.declared[name] = true
		c.emit(fmt.Sprintf("(declare-fun %s (Int) %s)", name, sort))
	}
	return name
}

func (c *Ctx) unbox(t types.Type, val Term) []Term {
	if _, ok := t.Underlying().(*types.Pointer); ok {
		return []Term{val}
	}
	lay := layout(t)
	out := make([]Term, len(lay))
	for i, l := range lay {
		out[i] = app(l.Sort, c.boxFn(t, i, l.Sort), val)
	}
	return out
}

func (f *Frame) execTypeAssert(in *ssa.TypeAssert, st *State) {
	c := f.ctx
	x := f.get(in.X)
	var ok Term
	var val []Term
	if types.IsInterface(in.AssertedType) {
		// interface-to-interface: satisfaction depends on the dynamic type
		okc := c.implementsPred(x[0], in.AssertedType)
		ok = And(Not(Eq(x[0], IntLit(0))), okc)
		val = x
	} else {
		ok = Eq(x[0], c.typeID(in.AssertedType))
		val = c.unbox(in.AssertedType, x[1])
	}
	if in.CommaOk {
		zero := zeroLeaves(in.AssertedType)
		if types.IsInterface(in.AssertedType) {
			zero = []Term{IntLit(0), IntLit(0)}
		}
		res := make([]Term, 0, len(val)+1)
		for i := range val {
			res = append(res, c.define("ta", Ite(ok, val[i], zero[i])))
		}
		res = append(res, ok)
		if len(val) > 0 && !types.IsInterface(in.AssertedType) {
			c.assumeFact(st, Implies(ok, typeInv(in.AssertedType, val)))
		}
		f.set(in, res)
		return
	}
	f.check(st, "assert-type", in.Pos(), "type assertion succeeds", ok)
	if !types.IsInterface(in.AssertedType) {
		c.assumeFact(st, typeInv(in.AssertedType, val))
	}
	f.set(in, val)
}

// implementsPred: uninterpreted predicate "dynamic type tid implements I".
func (c *Ctx) implementsPred(tid Term, iface types.Type) Term {
	name := "implements_" + smtSym(types.TypeString(iface, nil))
	if !c.declared[name] {
		c.declared[name] = true
		c.emit(fmt.Sprintf("(declare-fun %s (Int) Bool)", name))
	}
	return app(SBool, name, tid)
}

func (f *Frame) execIndexAddr(in *ssa.IndexAddr, st *State) {
	c := f.ctx
	idx := f.get(in.Index)[0]
	switch xt := in.X.Type().Underlying().(type) {
	case *types.Slice:
		x := f.get(in.X)
		f.check(st, "bounds", in.Pos(), "index in range", And(Ge(idx, IntLit(0)), Lt(idx, x[2])))
		sh := &PtrShape{Kind: pElem, Ref: x[0], Idx: idx, View: x[1], Root: xt.Elem(), Off: 0, Typ: xt.Elem()}
		f.set(in, []Term{c.newShapePtr(sh, in.Name())})
	case *types.Pointer:
		arr := xt.Elem().Underlying().(*types.Array)
		base := c.shapeOf(f.get(in.X)[0], in.X.Type())
		f.check(st, "bounds", in.Pos(), "array index in range", And(Ge(idx, IntLit(0)), Lt(idx, IntLit(arr.Len()))))
		switch base.Kind {
		case pElem:
			sh := &PtrShape{Kind: pElem, Ref: base.Ref, Idx: c.define("ix", Add(base.Idx, idx)), View: base.View, Root: base.Root, Off: 0, Typ: arr.Elem()}
			f.set(in, []Term{c.newShapePtr(sh, in.Name())})
		default:
			// array stored flat inside an object / local cell: constant index only
			if k, ok := idx.intConst(); ok {
				nsh := *base
				nsh.Off = base.Off + int(k.Int64())*len(layout(arr.Elem()))
				nsh.Typ = arr.Elem()
				f.set(in, []Term{c.newShapePtr(&nsh, in.Name())})
			} else {
				c.unsupported(f, "symbolic index into an array embedded in a struct")
			}
		}
	default:
		c.unsupported(f, "IndexAddr on "+in.X.Type().String())
	}
}

func (f *Frame) execIndex(in *ssa.Index, st *State) {
	c := f.ctx
	idx := f.get(in.Index)[0]
	x := f.get(in.X)
	switch xt := in.X.Type().Underlying().(type) {
	case *types.Basic: // string
		f.check(st, "bounds", in.Pos(), "string index in range", And(Ge(idx, IntLit(0)), Lt(idx, app(SInt, "slen", x[0]))))
		f.set(in, []Term{app(SInt, "sat", x[0], idx)})
	case *types.Array:
		f.check(st, "bounds", in.Pos(), "array index in range", And(Ge(idx, IntLit(0)), Lt(idx, IntLit(xt.Len()))))
		w := len(layout(xt.Elem()))
		if k, ok := idx.intConst(); ok {
			f.set(in, x[int(k.Int64())*w:int(k.Int64()+1)*w])
			return
		}
		res := make([]Term, w)
		for j := 0; j < w; j++ {
			t := x[(int(xt.Len())-1)*w+j]
			for i := int(xt.Len()) - 2; i >= 0; i-- {
				t = Ite(Eq(idx, IntLit(int64(i))), x[i*w+j], t)
			}
			res[j] = c.define("ai", t)
		}
		f.set(in, res)
	default:
		c.unsupported(f, "Index on "+in.X.Type().String())
	}
}

func (f *Frame) execSlice(in *ssa.Slice, st *State) {
	c := f.ctx
	x := f.get(in.X)
	var lo, hi, mx Term
	has := func(v ssa.Value) bool { return v != nil }
	switch xt := in.X.Type().Underlying().(type) {
	case *types.Basic: // string
		n := app(SInt, "slen", x[0])
		lo, hi = IntLit(0), n
		if has(in.Low) {
			lo = f.get(in.Low)[0]
		}
		if has(in.High) {
			hi = f.get(in.High)[0]
		}
		f.check(st, "bounds", in.Pos(), "string slice bounds", And(Le(IntLit(0), lo), Le(lo, hi), Le(hi, n)))
		f.set(in, []Term{c.strSub(x[0], lo, hi)})
	case *types.Slice:
		lo, hi, mx = IntLit(0), x[2], x[3]
		if has(in.Low) {
			lo = f.get(in.Low)[0]
		}
		if has(in.High) {
			hi = f.get(in.High)[0]
		}
		if has(in.Max) {
			mx = f.get(in.Max)[0]
		}
		f.check(st, "bounds", in.Pos(), "slice bounds", And(Le(IntLit(0), lo), Le(lo, hi), Le(hi, mx), Le(mx, x[3])))
		// a nil slice stays nil when re-sliced [0:0]
		f.set(in, []Term{x[0], c.define("so", Add(x[1], lo)), c.define("sl", Sub(hi, lo)), c.define("sc", Sub(mx, lo))})
	case *types.Pointer:
		arr := xt.Elem().Underlying().(*types.Array)
		base := c.shapeOf(x[0], in.X.Type())
		if base.Kind != pElem {
			c.unsupported(f, "slicing an array that is not a separate allocation")
		}
		n := IntLit(arr.Len())
		lo, hi, mx = IntLit(0), n, n
		if has(in.Low) {
			lo = f.get(in.Low)[0]
		}
		if has(in.High) {
			hi = f.get(in.High)[0]
		}
		if has(in.Max) {
			mx = f.get(in.Max)[0]
		}
		f.check(st, "bounds", in.Pos(), "slice bounds", And(Le(IntLit(0), lo), Le(lo, hi), Le(hi, mx), Le(mx, n)))
		bo := base.Idx
		if base.View.S != "" && base.View.S != "0" {
			bo = Add(base.View, base.Idx)
		}
		f.set(in, []Term{base.Ref, c.define("so", Add(bo, lo)), c.define("sl", Sub(hi, lo)), c.define("sc", Sub(mx, lo))})
	default:
		c.unsupported(f, "Slice of "+in.X.Type().String())
	}
}

func (f *Frame) execReturn(in *ssa.Return, st *State) {
	var vals []Term
	for _, r := range in.Results {
		vals = append(vals, f.get(r)...)
	}
	f.rets = append(f.rets, retPoint{st: st.clone(), vals: vals, pos: in.Pos()})
	st.Reach = TFalse
}

func (f *Frame) execPanic(in *ssa.Panic, st *State) {
	c := f.ctx
	if !f.spec {
		goal := TFalse
		text := "explicit panic is unreachable"
		top := f.topFrame()
		if top.block != nil && top.block.Flags["panics-assumed"] && f == top {
			c.note("assumed", "explicit panic in "+f.label+" assumed unreachable: "+top.block.PanicsAssumed)
			st.Reach = TFalse
			return
		}
		if top.block != nil && len(top.block.PanicsIf) > 0 {
			var cs []Term
			for _, cl := range top.block.PanicsIf {
				cs = append(cs, c.evalSpecFn(cl.Fn, top.argVals, top.entry, snapOf(top.entry), top)[0])
				text = "panics only if " + cl.Text
			}
			goal = Or(cs...)
		}
		c.addObl(&Obligation{Name: c.oblName(f.label, "panic-unreachable"), Kind: "panic-unreachable", Fn: f.label, Pos: f.posOf(in.Pos()), Text: text, Reach: st.Reach, Goal: goal})
	}
	st.Reach = TFalse
}

func (f *Frame) topFrame() *Frame {
	fr := f
	for fr.parent != nil && !fr.top {
		fr = fr.parent
	}
	return fr
}

func (f *Frame) execMakeClosure(in *ssa.MakeClosure, st *State) {
	c := f.ctx
	fn := in.Fn.(*ssa.Function)
	id := c.fresh("closure", SInt)
	c.assert(Gt(id, IntLit(0)))
	var binds [][]Term
	for _, b := range in.Bindings {
		binds = append(binds, f.get(b))
	}
	c.eng.closures[id.S] = &closureVal{fn: fn, binds: binds, frame: f}
	f.set(in, []Term{id})
	// A closure verified as its own unit assumes its `requires` clauses about
	// captured variables at entry; they are proved here, where the closure is
	// created (for the values the captured variables have at this point).
	if blk := c.eng.ld.ByFn[fn]; blk != nil && blk.ClosureOf != "" && !f.spec && len(blk.Pre) > 0 && blk.Flags["checked-requires"] {
		var args [][]Term
		for _, p := range fn.Params {
			args = append(args, c.freshLeaves("clparam_"+p.Name(), p.Type()))
		}
		ok := true
		for _, cn := range blk.Captures {
			found := false
			for i, fv := range fn.FreeVars {
				if fv.Name() != cn || i >= len(binds) {
					continue
				}
				found = true
				if pt, isPtr := fv.Type().Underlying().(*types.Pointer); isPtr {
					args = append(args, c.load(st, c.shapeOf(binds[i][0], fv.Type())))
					_ = pt
				} else {
					args = append(args, binds[i])
				}
			}
			if !found {
				ok = false
			}
		}
		if ok {
			for _, cl := range blk.Pre {
				if cl.Fn.Signature.Params().Len() != len(args) {
					continue
				}
				t := c.evalSpecFn(cl.Fn, args, st, snapOf(st), f)[0]
				c.addObl(&Obligation{Name: c.oblName(f.label, "pre@"+blk.QualName()), Kind: "pre@call", Fn: f.label, Pos: f.posOf(in.Pos()), Text: "requires " + cl.Text + "  [at creation of closure " + blk.QualName() + "]", Reach: st.Reach, Goal: t, Clause: cl})
			}
		}
	}
}

type closureVal struct {
	fn    *ssa.Function
	binds [][]Term
	frame *Frame
}

func (f *Frame) runDefers(st *State) {
	c := f.ctx
	// only the defers registered by this frame
	var mine []deferRec
	var rest []deferRec
	for _, d := range st.Defers {
		if d.frame == f {
			mine = append(mine, d)
		} else {
			rest = append(rest, d)
		}
	}
	st.Defers = rest
	for i := len(mine) - 1; i >= 0; i-- {
		d := mine[i]
		if st.dead() {
			return
		}
		_ = c
		f.call(d.instr, &d.instr.Call, st)
	}
}

// runAtClauses executes ghost statements anchored before the given instruction.
func (f *Frame) runAtClauses(in ssa.Instruction, st *State) {
	c := f.ctx
	pos := in.Pos()
	if !pos.IsValid() {
		return
	}
	line := f.posOf(pos).Line
	for _, ac := range f.block.At {
		if f.atDone[ac] || ac.AnchorLine == 0 || line != ac.AnchorLine {
			continue
		}
		if f.atDone == nil {
			f.atDone = map[*AtClause]bool{}
		}
		f.atDone[ac] = true
		args := append([][]Term{}, f.argVals...)
		ok := true
		for i, name := range ac.Names {
			v, has := f.localVals[name]
			if !has {
				ok = false
				break
			}
			ts := f.get(v)
			addr := f.localAddr[name]
			// a variable that lives in memory (captured by a closure, or its
			// address taken) is read from its cell, whatever the most recent
			// debug reference to the name was (it may be an assigned constant)
			var cellAlloc *ssa.Alloc
			ncell := 0
			for _, b := range f.fn.Blocks {
				for _, bi := range b.Instrs {
					if a, ok := bi.(*ssa.Alloc); ok && a.Comment == name {
						cellAlloc = a
						ncell++
					}
				}
			}
			if ncell == 1 {
				if _, done := f.vals[cellAlloc]; done {
					v, addr = cellAlloc, true
					ts = f.get(v)
				}
			}
			if addr {
				ts = c.load(st, c.shapeOf(ts[0], v.Type()))
			}
			if os.Getenv("GOVC_DEBUG_AT") != "" {
				fmt.Fprintf(os.Stderr, "at %q: %s = %v (%T %s) addr=%v -> %v at %v\n", ac.Anchor, name, v, v, v.Name(), f.localAddr[name], ts, f.posOf(in.Pos()))
			}
			want := ac.Fn.Signature.Params().At(len(f.argVals) + i).Type()
			if len(ts) != len(layout(want)) {
				ok = false
				break
			}
			args = append(args, ts)
		}
		if !ok {
			panic(unsupportedErr{fmt.Sprintf("contract-target-changed: %s: local variables of `at %q` not available at that point", f.label, ac.Anchor)})
		}
		f.inline(ac.Fn, args, nil, st, in)
	}
}
