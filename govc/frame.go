package main

// Execution of one SSA function body: block scheduling in reverse postorder,
// joins, loops cut at invariants.

import (
	"go/ast"
	"fmt"
	"go/token"
	"go/types"
	"sort"
	"strings"

	"golang.org/x/tools/go/ssa"
)

type retPoint struct {
	st   *State
	vals []Term
	pos  token.Pos
}

type Frame struct {
	ctx      *Ctx
	fn       *ssa.Function
	vals     map[ssa.Value][]Term
	spec     bool // specification mode: no obligations, no heap writes
	args     []Term // flattened parameter leaves (for clause evaluation)
	argVals  [][]Term
	bindings [][]Term // free variable values (closures)
	rets     []retPoint
	cells    map[*ssa.Alloc]*Cell
	block    *Block // contract block of fn, if any
	depth    int
	oldHeaps []HeapSnap // stack for __old
	oldSnap  *HeapSnap
	entry    *State            // snapshot of the entry state (old-state of the unit)
	top      bool              // the function under verification
	parent   *Frame
	label    string
	quantDepth int
	localVals  map[string]ssa.Value // source-level local variables (from DebugRef), for `at` clauses
	loopLocals map[*LoopSpec]map[string]ssa.Value
	localAddr  map[string]bool
	atDone     map[*AtClause]bool
	freshArraysOnly bool
	preCallAlloc    Term
	pointwise  map[string][]Term
	localObjs  []localObj        // escaping local allocations of this frame (objects in the symbolic heap)
	passedRefs map[string]bool   // references handed to the call being processed
	leaked     map[string]bool   // local references stored into the heap (may be reached by any callee) // frame clause in effect for the contract being applied
}

type loopInfo struct {
	header  *ssa.BasicBlock
	body    map[*ssa.BasicBlock]bool
	ordinal int
}

func (f *Frame) posOf(p token.Pos) token.Position {
	return f.ctx.eng.ld.Prog.Fset.Position(p)
}

// rpo computes reverse postorder over forward edges.
func rpo(fn *ssa.Function) []*ssa.BasicBlock {
	seen := map[*ssa.BasicBlock]bool{}
	var order []*ssa.BasicBlock
	var visit func(b *ssa.BasicBlock)
	visit = func(b *ssa.BasicBlock) {
		seen[b] = true
		for _, s := range b.Succs {
			if !seen[s] {
				visit(s)
			}
		}
		order = append(order, b)
	}
	visit(fn.Blocks[0])
	for i, j := 0, len(order)-1; i < j; i, j = i+1, j-1 {
		order[i], order[j] = order[j], order[i]
	}
	return order
}

func isBackEdge(from, to *ssa.BasicBlock) bool {
	return to.Dominates(from)
}

// findLoops identifies natural loops; ordinals follow the source position of
// the loop headers.
func findLoops(fn *ssa.Function) map[*ssa.BasicBlock]*loopInfo {
	loops := map[*ssa.BasicBlock]*loopInfo{}
	for _, b := range fn.Blocks {
		for _, s := range b.Succs {
			if isBackEdge(b, s) {
				li := loops[s]
				if li == nil {
					li = &loopInfo{header: s, body: map[*ssa.BasicBlock]bool{s: true}}
					loops[s] = li
				}
				// collect body: nodes reaching b without passing s
				var stack []*ssa.BasicBlock
				if !li.body[b] {
					li.body[b] = true
					stack = append(stack, b)
				}
				for len(stack) > 0 {
					x := stack[len(stack)-1]
					stack = stack[:len(stack)-1]
					for _, p := range x.Preds {
						if !li.body[p] {
							li.body[p] = true
							stack = append(stack, p)
						}
					}
				}
			}
		}
	}
	var hs []*ssa.BasicBlock
	for h := range loops {
		hs = append(hs, h)
	}
	sort.Slice(hs, func(i, j int) bool {
		pi, pj := headerPos(hs[i]), headerPos(hs[j])
		if pi != pj {
			return pi < pj
		}
		return hs[i].Index < hs[j].Index
	})
	for i, h := range hs {
		loops[h].ordinal = i
	}
	return loops
}

// headerPos approximates the source position of a loop by the smallest
// position of an instruction in its header (falls back to block index).
func headerPos(b *ssa.BasicBlock) token.Pos {
	var best token.Pos
	for _, in := range b.Instrs {
		if p := in.Pos(); p.IsValid() && (best == 0 || p < best) {
			best = p
		}
	}
	if best == 0 {
		// look into the successors (range loops have position-less headers)
		for _, s := range b.Succs {
			for _, in := range s.Instrs {
				if p := in.Pos(); p.IsValid() && (best == 0 || p < best) {
					best = p
				}
			}
		}
	}
	return best
}

// run executes the body from the given entry state.
func (f *Frame) run(entry *State) {
	fn := f.fn
	if len(fn.Blocks) == 0 {
		panic("run: function without body: " + fn.String())
	}
	order := rpo(fn)
	loops := findLoops(fn)
	incoming := map[*ssa.BasicBlock][]inEdge{}
	incoming[fn.Blocks[0]] = []inEdge{{st: entry, pred: nil}}
	headerState := map[*ssa.BasicBlock]*State{}
	headerDec := map[*ssa.BasicBlock]Term{}

	for _, b := range order {
		if fn.Recover != nil && b == fn.Recover {
			continue
		}
		ins := incoming[b]
		var live []inEdge
		for _, e := range ins {
			if !e.st.dead() {
				live = append(live, e)
			}
		}
		li := loops[b]
		if len(live) == 0 && li == nil {
			continue
		}
		if len(live) == 0 {
			continue
		}
		var st *State
		if li != nil {
			st = f.enterLoop(b, li, live, headerState, headerDec)
		} else {
			var sts []*State
			for _, e := range live {
				sts = append(sts, e.st)
			}
			st = f.ctx.mergeStates(sts)
			f.bindPhis(b, live, st)
		}
		// instructions
		for _, in := range b.Instrs {
			if _, ok := in.(*ssa.Phi); ok {
				continue
			}
			if st.dead() {
				break
			}
			f.exec(in, st)
		}
		if st.dead() {
			continue
		}
		// terminator
		last := b.Instrs[len(b.Instrs)-1]
		switch t := last.(type) {
		case *ssa.If:
			cond := f.get(t.Cond)[0]
			s1 := st.clone()
			s1.assume(f.ctx, cond)
			s2 := st
			s2.assume(f.ctx, Not(cond))
			f.sendEdge(b, b.Succs[0], s1, loops, headerState, headerDec, incoming)
			f.sendEdge(b, b.Succs[1], s2, loops, headerState, headerDec, incoming)
		case *ssa.Jump:
			f.sendEdge(b, b.Succs[0], st, loops, headerState, headerDec, incoming)
		case *ssa.Return, *ssa.Panic:
			// handled in exec
		default:
			panic(fmt.Sprintf("unknown terminator %T", last))
		}
	}
}

func (f *Frame) sendEdge(from, to *ssa.BasicBlock, st *State, loops map[*ssa.BasicBlock]*loopInfo, headerState map[*ssa.BasicBlock]*State, headerDec map[*ssa.BasicBlock]Term, incoming map[*ssa.BasicBlock][]inEdge) {
	if st.dead() {
		return
	}
	if isBackEdge(from, to) {
		f.closeLoop(from, to, loops[to], st, headerState[to], headerDec[to])
		return
	}
	incoming[to] = append(incoming[to], inEdge{st: st, pred: from})
}

func predIndex(b, pred *ssa.BasicBlock) []int {
	var out []int
	for i, p := range b.Preds {
		if p == pred {
			out = append(out, i)
		}
	}
	return out
}

// bindPhis computes phi values at a join.
func (f *Frame) bindPhis(b *ssa.BasicBlock, live []inEdge, st *State) {
	var reaches []Term
	for _, e := range live {
		reaches = append(reaches, e.st.Reach)
	}
	for _, in := range b.Instrs {
		phi, ok := in.(*ssa.Phi)
		if !ok {
			break
		}
		n := len(layout(phi.Type()))
		res := make([]Term, n)
		var edgeVals [][]Term
		for _, e := range live {
			idx := predIndex(b, e.pred)
			if len(idx) == 0 {
				panic("phi: predecessor not found")
			}
			edgeVals = append(edgeVals, f.get(phi.Edges[idx[0]]))
		}
		for k := 0; k < n; k++ {
			var vs []Term
			for _, ev := range edgeVals {
				vs = append(vs, ev[k])
			}
			res[k] = f.ctx.define("phi_"+phi.Name(), f.ctx.iteChain(reaches, vs))
		}
		f.checkPtrMerge(phi.Type(), edgeVals, res)
		f.vals[phi] = res
	}
}

// checkPtrMerge: merging shaped pointers of different shapes is outside the
// supported subset; same-shape merges get a merged shape.
func (f *Frame) checkPtrMerge(t types.Type, edgeVals [][]Term, res []Term) {
	if _, ok := t.Underlying().(*types.Pointer); !ok {
		return
	}
	var shapes []*PtrShape
	any := false
	for _, ev := range edgeVals {
		sh := f.ctx.shapes[ev[0].S]
		shapes = append(shapes, sh)
		if sh != nil {
			any = true
		}
	}
	if !any {
		return
	}
	first := shapes[0]
	same := true
	for i, sh := range shapes {
		if sh == nil || first == nil || sh.Kind != first.Kind || sh.Cell != first.Cell || sh.Off != first.Off || !types.Identical(sh.Root, first.Root) || sh.Ref.S != first.Ref.S || sh.Idx.S != first.Idx.S || sh.View.S != first.View.S {
			same = false
		}
		_ = i
	}
	if same {
		f.ctx.shapes[res[0].S] = first
		return
	}
	f.ctx.note("abstracted", fmt.Sprintf("%s: merge of differently shaped pointers (unsupported)", f.fn.String()))
	f.ctx.unsupported(f, "pointer-merge")
}

// loopModified computes what a loop body may modify: heap keys, cells.
func (f *Frame) loopModified(li *loopInfo) (keys map[string]bool, cells map[*Cell]bool, all bool) {
	keys = map[string]bool{}
	cells = map[*Cell]bool{}
	for b := range li.body {
		for _, in := range b.Instrs {
			f.ctx.eng.instrWrites(f, in, keys, cells, &all)
		}
	}
	return
}

func (f *Frame) enterLoop(h *ssa.BasicBlock, li *loopInfo, live []inEdge, headerState map[*ssa.BasicBlock]*State, headerDec map[*ssa.BasicBlock]Term) *State {
	c := f.ctx
	var sts []*State
	for _, e := range live {
		sts = append(sts, e.st)
	}
	entry := c.mergeStates(sts)
	f.bindPhis(h, live, entry)
	var phis []*ssa.Phi
	for _, in := range h.Instrs {
		if p, ok := in.(*ssa.Phi); ok {
			phis = append(phis, p)
		}
	}
	spec := f.loopSpec(li)
	fname := f.label
	f.resolveLoopLocals(h, li, spec)
	// invariants hold on entry
	invs := f.loopInvariants(li, spec, phis)
	for _, iv := range invs {
		t := iv.eval(f, entry, phis, nil)
		if !f.spec {
			c.addObl(&Obligation{Name: c.oblName(fname, fmt.Sprintf("inv-init#loop%d.%s", li.ordinal, iv.name)), Kind: "inv-init", Fn: fname, Pos: f.posOf(headerPos(h)), Text: iv.text, Reach: entry.Reach, Goal: t, Clause: iv.clause})
		}
	}
	// havoc
	st := entry.clone()
	r := c.fresh("inloop", SBool)
	// The path condition at loop entry talks about SSA values defined before
	// the loop and heap versions that existed before the loop; it stays valid
	// in every iteration and is kept.
	st.Reach = c.reachAnd(f.entryFacts(entry), r)
	keys, cells, all := f.loopModified(li)
	na := c.fresh("loopalloc", SInt)
	c.assert(Ge(na, entry.Alloc))
	st.Alloc = na
	if all {
		c.havocAllHeap(st)
	}
	for k := range keys {
		cur := c.heapGet(st, k, c.eng.keySort(k))
		c.setHeap(st, k, c.fresh("loopheap", cur.Sort))
	}
	// ghost call records of the calls the loop body can make are unknown in
	// an arbitrary iteration; records of other calls are unaffected
	names := map[string]bool{}
	for b := range li.body {
		for _, in := range b.Instrs {
			if ci, ok := in.(ssa.CallInstruction); ok {
				c.eng.callRecordNames(ci.Common(), names, 0, map[*ssa.Function]bool{})
			}
		}
	}
	for k := range st.Ghost {
		if !names["*"] && !names[ghostKeyName(k)] {
			continue
		}
		if strings.HasPrefix(k, "result:") {
			st.Ghost[k] = c.fresh("loopghost", SInt)
		} else if strings.HasPrefix(k, "res:") {
			st.Ghost[k] = c.fresh("loopghost", st.Ghost[k].Sort)
		} else {
			st.Ghost[k] = c.fresh("loopghost", SBool)
		}
	}
	// records of the loop's own calls that do not exist yet get a state
	// variable of their own (one value per loop-head state, so that an
	// invariant and a later clause speak about the same record)
	if !names["*"] {
		var ns []string
		for n := range names {
			ns = append(ns, n)
		}
		sort.Strings(ns)
		for _, n := range ns {
			for _, pre := range []string{"called:", "failed:"} {
				if _, ok := st.Ghost[pre+n]; !ok {
					if st.Ghost == nil {
						st.Ghost = map[string]Term{}
					}
					st.Ghost[pre+n] = c.fresh("loopghost", SBool)
				}
			}
		}
	}
	if st.GhostUnknown && st.GhostLoopNames == nil {
		names["*"] = true // everything was already unknown
	}
	for k := range st.GhostLoopNames {
		names[k] = true
	}
	st.GhostUnknown = true
	st.GhostLoopNames = names
	{
		// a new generation of unknown records; those the loop cannot touch keep their value
		memo := map[string]Term{}
		if !names["*"] {
			for k, v := range st.GhostMemo {
				if !names[ghostKeyName(k)] {
					memo[k] = v
				}
			}
		}
		st.GhostMemo = memo
	}
	for cell := range cells {
		st.Cells[cell] = c.freshLeaves("loopcell_"+cell.Name, cell.Typ)
		st.assume(c, typeInv(cell.Typ, st.Cells[cell]))
		st.assume(c, refsBelow(cell.Typ, st.Cells[cell], na))
	}
	for _, p := range phis {
		vs := c.freshLeaves("loop_"+p.Comment, p.Type())
		f.vals[p] = vs
		st.assume(c, typeInv(p.Type(), vs))
		st.assume(c, refsBelow(p.Type(), vs, na))
	}
	for _, iv := range invs {
		st.assume(c, iv.eval(f, st, phis, nil))
	}
	headerState[h] = st.clone()
	if spec != nil && spec.Dec != nil {
		headerDec[h] = f.evalLoopClause(spec.Dec, st, phis, nil, spec)[0]
	}
	// cover-loop: the loop head is reachable under the invariant
	return st
}

// entryFacts: the path condition at loop entry talks about SSA values defined
// before the loop and heap versions that existed before the loop; those stay
// valid in any iteration, so it may be kept.
func (f *Frame) entryFacts(entry *State) Term { return entry.Reach }

func (f *Frame) closeLoop(from, h *ssa.BasicBlock, li *loopInfo, st *State, hst *State, hdec Term) {
	c := f.ctx
	if f.spec {
		return
	}
	var phis []*ssa.Phi
	for _, in := range h.Instrs {
		if p, ok := in.(*ssa.Phi); ok {
			phis = append(phis, p)
		}
	}
	idx := predIndex(h, from)
	next := map[*ssa.Phi][]Term{}
	for _, p := range phis {
		next[p] = f.get(p.Edges[idx[0]])
	}
	spec := f.loopSpec(li)
	fname := f.label
	for _, iv := range f.loopInvariants(li, spec, phis) {
		t := iv.eval(f, st, phis, next)
		c.addObl(&Obligation{Name: c.oblName(fname, fmt.Sprintf("inv-step#loop%d.%s", li.ordinal, iv.name)), Kind: "inv-step", Fn: fname, Pos: f.posOf(headerPos(h)), Text: iv.text, Reach: st.Reach, Goal: t, Clause: iv.clause})
	}
	if spec != nil && spec.Dec != nil {
		d := f.evalLoopClause(spec.Dec, st, phis, next, spec)[0]
		goal := And(Ge(hdec, IntLit(0)), Lt(d, hdec))
		c.addObl(&Obligation{Name: c.oblName(fname, fmt.Sprintf("terminates#loop%d", li.ordinal)), Kind: "terminates", Fn: fname, Pos: f.posOf(headerPos(h)), Text: "decreases " + spec.Dec.Text, Reach: st.Reach, Goal: goal, Clause: spec.Dec})
	}
}

func (f *Frame) loopSpec(li *loopInfo) *LoopSpec {
	if f.block == nil {
		return nil
	}
	return f.block.Loops[li.ordinal]
}

type invariant struct {
	name   string
	text   string
	clause *Clause
	eval   func(f *Frame, st *State, phis []*ssa.Phi, next map[*ssa.Phi][]Term) Term
}

// loopInvariants: declared invariants plus automatically inferred counter
// bounds (candidates are proved like declared ones, never assumed).
func (f *Frame) loopInvariants(li *loopInfo, spec *LoopSpec, phis []*ssa.Phi) []invariant {
	var out []invariant
	if f.block != nil {
		for _, cl := range f.block.LoopInvAll {
			cl := cl
			out = append(out, invariant{name: fmt.Sprintf("all%d", cl.Index), text: cl.Text, clause: cl, eval: func(f *Frame, st *State, phis []*ssa.Phi, next map[*ssa.Phi][]Term) Term {
				return f.ctx.evalSpecFn(cl.Fn, f.argVals[:1], st, f.entryHeap(), f)[0]
			}})
		}
	}
	if spec != nil {
		for _, cl := range spec.Inv {
			cl := cl
			out = append(out, invariant{name: fmt.Sprintf("inv%d", cl.Index), text: cl.Text, clause: cl, eval: func(f *Frame, st *State, phis []*ssa.Phi, next map[*ssa.Phi][]Term) Term {
				return f.evalLoopClause(cl, st, phis, next, spec)[0]
			}})
		}
	}
	// auto: in a function with the frame clause "fresh-arrays", backing arrays
	// that existed at function entry are unchanged at every loop head
	if f.block != nil && f.block.Flags["fresh-arrays"] && f.parent == nil && f.entry != nil {
		out = append(out, invariant{name: "autoframe", text: "auto: arrays existing at entry unchanged (fresh-arrays)", eval: func(f *Frame, st *State, phis []*ssa.Phi, next map[*ssa.Phi][]Term) Term {
			c := f.ctx
			var keys []string
			for key := range st.Heap {
				if strings.HasPrefix(key, "A|") {
					keys = append(keys, key)
				}
			}
			sort.Strings(keys)
			var cs []Term
			for _, key := range keys {
				fin := st.Heap[key]
				ent := c.heapGet(f.entry, key, fin.Sort)
				if ent.S == fin.S {
					continue
				}
				c.n++
				q := Term{fmt.Sprintf("fr!%d", c.n), SInt}
				cs = append(cs, Forall([]Term{q}, Implies(Lt(q, f.entry.Alloc), Eq(Select(fin, q), Select(ent, q))), []Term{Select(fin, q)}))
			}
			return And(cs...)
		}})
	}
	// auto: in a function with a modifies clause, heap keys under the clause
	// are unchanged at every loop head except at the named references
	if f.block != nil && len(f.block.Modifies) > 0 && !f.block.Flags["trusted"] && f.parent == nil && f.entry != nil && !f.spec {
		out = append(out, invariant{name: "automodifies", text: "auto: frame of the modifies clause holds at the loop head", eval: func(f *Frame, st *State, phis []*ssa.Phi, next map[*ssa.Phi][]Term) Term {
			c := f.ctx
			refsByPrefix := f.frameRefs(f.block, f.fn.Params, f.argVals, f.entry.clone())
			var keys []string
			for key := range st.Heap {
				keys = append(keys, key)
			}
			sort.Strings(keys)
			var cs []Term
			for _, key := range keys {
				var refs []Term
				hit := false
				for prefix, rs := range refsByPrefix {
					if strings.HasPrefix(key, prefix) {
						hit = true
						refs = append(refs, rs...)
					}
				}
				if !hit {
					continue
				}
				fin := st.Heap[key]
				ent := c.heapGet(f.entry, key, fin.Sort)
				if ent.S == fin.S {
					continue
				}
				c.n++
				q := Term{fmt.Sprintf("fr!%d", c.n), SInt}
				var ne []Term
				for _, rf := range refs {
					ne = append(ne, Not(Eq(q, rf)))
				}
				ne = append(ne, Lt(q, f.entry.Alloc))
				cs = append(cs, Forall([]Term{q}, Implies(And(ne...), Eq(Select(fin, q), Select(ent, q))), []Term{Select(fin, q)}))
			}
			return And(cs...)
		}})
	}
	// auto: range-index loops (idx = phi[-1, idx+1]; next := idx+1; if next < N): idx < N
	for pi, p := range phis {
		if p.Comment != "rangeindex" {
			continue
		}
		var bound ssa.Value
		for _, in := range p.Block().Instrs {
			add, ok := in.(*ssa.BinOp)
			if !ok || add.Op != token.ADD || add.X != p {
				continue
			}
			for _, in2 := range p.Block().Instrs {
				if cmp, ok := in2.(*ssa.BinOp); ok && cmp.Op == token.LSS && cmp.X == add {
					bound = cmp.Y
				}
			}
		}
		if bound == nil {
			continue
		}
		p := p
		b := bound
		out = append(out, invariant{name: fmt.Sprintf("autorange%d", pi), text: "auto: range index below the length", eval: func(f *Frame, st *State, phis []*ssa.Phi, next map[*ssa.Phi][]Term) Term {
			cur := f.vals[p][0]
			if next != nil {
				cur = next[p][0]
			}
			return Lt(cur, f.get(b)[0])
		}})
	}
	// auto: x = phi[init, x + c]  with constant c  ==>  x >= init  (c > 0) or x <= init (c < 0)
	for pi, p := range phis {
		if _, ok := isSigned(p.Type()); !ok {
			continue
		}
		var init ssa.Value
		step := int64(0)
		okShape := true
		for i, e := range p.Edges {
			pred := p.Block().Preds[i]
			if li.body[pred] {
				s, ok := stepOf(e, p)
				if !ok {
					okShape = false
					break
				}
				if s == 0 {
					continue
				}
				if step != 0 && (s > 0) != (step > 0) {
					okShape = false
					break
				}
				step = s
			} else {
				if init != nil && init != e {
					okShape = false
					break
				}
				init = e
			}
		}
		if !okShape || init == nil || step == 0 {
			continue
		}
		p := p
		init0 := init
		up := step > 0
		out = append(out, invariant{name: fmt.Sprintf("auto%d", pi), text: fmt.Sprintf("auto: %s monotone from its initial value", p.Comment), eval: func(f *Frame, st *State, phis []*ssa.Phi, next map[*ssa.Phi][]Term) Term {
			cur := f.vals[p][0]
			if next != nil {
				cur = next[p][0]
			}
			iv := f.get(init0)[0]
			if up {
				return Ge(cur, iv)
			}
			return Le(cur, iv)
		}})
	}
	return out
}

// stepOf recognises e == p (step 0), e == p + c, e == p - c (possibly through
// one more phi-free addition chain).
func stepOf(e ssa.Value, p *ssa.Phi) (int64, bool) {
	if e == p {
		return 0, true
	}
	total := int64(0)
	cur := e
	for depth := 0; depth < 4; depth++ {
		if cur == p {
			return total, true
		}
		bo, ok := cur.(*ssa.BinOp)
		if !ok {
			return 0, false
		}
		c, ok := bo.Y.(*ssa.Const)
		if !ok || c.Value == nil {
			return 0, false
		}
		v := c.Int64()
		switch bo.Op {
		case token.ADD:
			total += v
		case token.SUB:
			total -= v
		default:
			return 0, false
		}
		cur = bo.X
	}
	return 0, false
}

// evalLoopClause evaluates a loop clause function: parameters of the unit,
// then the loop variables (positional over the header phis), then cells.
func (f *Frame) evalLoopClause(cl *Clause, st *State, phis []*ssa.Phi, next map[*ssa.Phi][]Term, spec *LoopSpec) []Term {
	var args [][]Term
	args = append(args, f.argVals...)
	nparams := len(f.argVals)
	sig := cl.Fn.Signature
	want := sig.Params().Len() - nparams - len(spec.Locals)
	vi := 0
	// bind by name when every declared loop variable names a distinct
	// loop-carried variable of the header; positionally otherwise
	byName := map[string]*ssa.Phi{}
	{
		cnt := map[string]int{}
		for _, p := range phis {
			cnt[p.Comment]++
		}
		all := true
		nvars := 0
		for i := 0; i < want && i < len(spec.Vars); i++ {
			name := spec.Vars[i]
			if strings.HasPrefix(name, "cell:") {
				continue
			}
			nvars++
			if cnt[name] != 1 {
				all = false
			}
		}
		if all && nvars == len(phis) {
			for _, p := range phis {
				byName[p.Comment] = p
			}
		}
	}
	for i := 0; i < want; i++ {
		pv := sig.Params().At(nparams + i)
		name := ""
		if i < len(spec.Vars) {
			name = spec.Vars[i]
		}
		if p, ok := byName[name]; ok && types.Identical(p.Type(), pv.Type()) {
			vi++
			if next != nil {
				args = append(args, next[p])
			} else {
				args = append(args, f.vals[p])
			}
			continue
		}
		if strings.HasPrefix(name, "cell:") {
			// bound by source name to an Alloc of the function
			cname := strings.TrimPrefix(name, "cell:")
			var found *ssa.Alloc
			for _, b := range f.fn.Blocks {
				for _, in := range b.Instrs {
					if a, ok := in.(*ssa.Alloc); ok && a.Comment == cname {
						found = a
					}
				}
			}
			if found == nil {
				panic(unsupportedErr{fmt.Sprintf("contract-target-changed: %s: loop clause cell %q not found", f.label, cname)})
			}
			ptr := f.get(found)
			args = append(args, f.ctx.load(st, f.ctx.shapeOf(ptr[0], found.Type())))
			continue
		}
		if vi >= len(phis) {
			panic(unsupportedErr{fmt.Sprintf("contract-target-changed: %s: loop clause %s:%d declares more variables than the loop header has (%d: %s)", f.label, shortPos(cl.File), cl.Line, len(phis), phiNames(phis))})
		}
		p := phis[vi]
		vi++
		if !types.Identical(p.Type(), pv.Type()) {
			panic(unsupportedErr{fmt.Sprintf("contract-target-changed: %s: loop variable %d (%s) has type %v, clause declares %v", f.label, i, p.Comment, p.Type(), pv.Type())})
		}
		if next != nil {
			args = append(args, next[p])
		} else {
			args = append(args, f.vals[p])
		}
	}
	if vi != len(phis) && vi != 0 {
		panic(unsupportedErr{fmt.Sprintf("contract-target-changed: %s: loop clause %s:%d binds %d of %d loop-carried variables (%s)", f.label, shortPos(cl.File), cl.Line, vi, len(phis), phiNames(phis))})
	}
	// source-level locals (not loop-carried), by name
	for li, name := range spec.Locals {
		v, has := f.localVals[name]
		if rv, ok := f.loopLocals[spec][name]; ok {
			v, has = rv, true
		}
		if !has {
			panic(unsupportedErr{fmt.Sprintf("contract-target-changed: %s: local %q of a loop clause is not defined before the loop", f.label, name)})
		}
		ts := f.get(v)
		if f.localAddr[name] {
			// a clause may name the variable itself (declared with a pointer type) instead of its value
			pi := sig.Params().Len() - len(spec.Locals) + li
			if pi < 0 || !types.Identical(sig.Params().At(pi).Type(), v.Type()) {
				ts = f.ctx.load(st, f.ctx.shapeOf(ts[0], v.Type()))
			}
		}
		args = append(args, ts)
	}
	return f.ctx.evalSpecFn(cl.Fn, args, st, f.entryHeap(), f)
}

func phiNames(phis []*ssa.Phi) string {
	var ns []string
	for _, p := range phis {
		ns = append(ns, p.Comment+" "+p.Type().String())
	}
	return strings.Join(ns, ", ")
}

func (f *Frame) entryHeap() HeapSnap {
	fr := f
	for fr != nil {
		if fr.entry != nil {
			return snapOf(fr.entry)
		}
		fr = fr.parent
	}
	return HeapSnap{map[string]Term{}, 0}
}

// resolveLoopLocals finds, for every `locals` name of a loop specification,
// the SSA value the loop itself uses for that variable when the loop does not
// modify it: a debug reference inside the loop whose value is defined outside.
// (The most recently executed debug reference, used otherwise, may belong to a
// different branch of an earlier loop.)
func (f *Frame) resolveLoopLocals(h *ssa.BasicBlock, li *loopInfo, spec *LoopSpec) {
	if spec == nil || len(spec.Locals) == 0 {
		return
	}
	if f.loopLocals == nil {
		f.loopLocals = map[*LoopSpec]map[string]ssa.Value{}
	}
	if f.loopLocals[spec] != nil {
		return
	}
	m := map[string]ssa.Value{}
	f.loopLocals[spec] = m
	inLoop := func(b *ssa.BasicBlock) bool { return b == h || li.body[b] }
	var blocks []*ssa.BasicBlock
	blocks = append(blocks, h)
	for _, b := range f.fn.Blocks {
		if li.body[b] && b != h {
			blocks = append(blocks, b)
		}
	}
	for _, name := range spec.Locals {
		for _, b := range blocks {
			for _, in := range b.Instrs {
				d, ok := in.(*ssa.DebugRef)
				if !ok || d.IsAddr {
					continue
				}
				id, ok := d.Expr.(*ast.Ident)
				if !ok || id.Name != name {
					continue
				}
				if _, has := m[name]; has {
					continue
				}
				switch x := d.X.(type) {
				case *ssa.Parameter, *ssa.Const, *ssa.FreeVar, *ssa.Global, *ssa.Function:
					m[name] = d.X
				case ssa.Instruction:
					if !inLoop(x.Block()) {
						m[name] = d.X
					}
				}
			}
		}
	}
}
