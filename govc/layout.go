package main

// Flattening of Go types into SMT leaves, heap-map keys and type invariants.

import (
	"fmt"
	"go/types"
	"strings"
)

type Leaf struct {
	Sort Sort
	Typ  types.Type // Go type of the leaf (basic, pointer, map, ...); for slice parts / iface parts a synthetic role
	Role string     // "", "base", "off", "len", "cap", "tid", "val"
}

var layoutCache = map[types.Type][]Leaf{}

// opaqueNamed lists external named types treated as a single opaque Int leaf.
func opaqueNamed(t types.Type) bool {
	n, ok := t.(*types.Named)
	if !ok {
		return false
	}
	obj := n.Obj()
	if obj.Pkg() == nil {
		return false
	}
	switch obj.Pkg().Path() + "." + obj.Name() {
	case "time.Time", "sync.Mutex", "sync.RWMutex", "sync.WaitGroup", "sync.Once", "strings.Builder", "bytes.Buffer", "sync/atomic.Bool", "sync/atomic.Int32", "sync/atomic.Uint32":
		return true
	}
	return false
}

func layout(t types.Type) []Leaf {
	if l, ok := layoutCache[t]; ok {
		return l
	}
	var out []Leaf
	if opaqueNamed(t) {
		out = []Leaf{{SInt, t, "opaque"}}
		layoutCache[t] = out
		return out
	}
	switch u := t.Underlying().(type) {
	case *types.Basic:
		switch {
		case u.Info()&types.IsBoolean != 0:
			out = []Leaf{{SBool, t, ""}}
		case u.Info()&types.IsString != 0:
			out = []Leaf{{SStr, t, ""}}
		default:
			out = []Leaf{{SInt, t, ""}}
		}
	case *types.Pointer:
		out = []Leaf{{SInt, t, ""}}
	case *types.Slice:
		out = []Leaf{{SInt, t, "base"}, {SInt, t, "off"}, {SInt, t, "len"}, {SInt, t, "cap"}}
	case *types.Struct:
		for i := 0; i < u.NumFields(); i++ {
			out = append(out, layout(u.Field(i).Type())...)
		}
	case *types.Array:
		n := u.Len()
		if n <= 16 {
			el := layout(u.Elem())
			for i := int64(0); i < n; i++ {
				out = append(out, el...)
			}
		} else {
			out = []Leaf{{SInt, t, "bigarray"}}
		}
	case *types.Interface:
		out = []Leaf{{SInt, t, "tid"}, {SInt, t, "val"}}
	case *types.Map, *types.Chan, *types.Signature:
		out = []Leaf{{SInt, t, ""}}
	case *types.Tuple:
		for i := 0; i < u.Len(); i++ {
			out = append(out, layout(u.At(i).Type())...)
		}
	case *types.TypeParam:
		out = []Leaf{{SInt, t, "typeparam"}}
	default:
		panic(unsupportedErr{fmt.Sprintf("layout: unsupported type %v (%T)", t, u)})
	}
	layoutCache[t] = out
	return out
}

// fieldOffset returns the leaf offset of field i in struct type st.
func fieldOffset(st *types.Struct, i int) int {
	off := 0
	for k := 0; k < i; k++ {
		off += len(layout(st.Field(k).Type()))
	}
	return off
}

// typeKey is the canonical key of a type for heap maps. Named struct types
// keep their name (no unsafe casts between distinct struct pointer types are
// supported); everything else is structural over underlying basic kinds so
// that the repository's slice-header casts ([]UID <-> []uint32, SeqSet <->
// imapnum.Set) address the same memory.
func typeKey(t types.Type) string {
	return typeKeyRec(t, 0)
}

func typeKeyRec(t types.Type, depth int) string {
	if opaqueNamed(t) {
		return t.(*types.Named).Obj().Name()
	}
	switch u := t.Underlying().(type) {
	case *types.Basic:
		return u.Name()
	case *types.Pointer:
		return "ptr"
	case *types.Slice:
		return "[]" + elemKey(u.Elem())
	case *types.Struct:
		if n, ok := t.(*types.Named); ok {
			p := ""
			if n.Obj().Pkg() != nil {
				p = n.Obj().Pkg().Name() + "."
			}
			return p + n.Obj().Name()
		}
		return "struct" + elemKey(t)
	case *types.Array:
		return fmt.Sprintf("[%d]%s", u.Len(), elemKey(u.Elem()))
	case *types.Interface:
		return "iface"
	case *types.Map:
		return "map"
	case *types.Chan:
		return "chan"
	case *types.Signature:
		return "func"
	}
	return "other"
}

// elemKey is the structural key used for array element memory.
func elemKey(t types.Type) string {
	ls := layout(t)
	if _, ok := t.Underlying().(*types.Struct); ok {
		var parts []string
		for _, l := range ls {
			parts = append(parts, leafKindName(l))
		}
		return "S{" + strings.Join(parts, ",") + "}"
	}
	if len(ls) == 1 {
		// named string-like types get their own element memory (no unsafe
		// casts exist between them); integer kinds stay structural because of
		// the []UID <-> []uint32 header casts.
		if n, ok := t.(*types.Named); ok && ls[0].Sort == SStr && n.Obj().Pkg() != nil {
			return n.Obj().Pkg().Name() + "." + n.Obj().Name()
		}
		return leafKindName(ls[0])
	}
	return typeKeyRec(t, 1)
}

func leafKindName(l Leaf) string {
	if l.Role != "" && l.Role != "opaque" {
		return l.Role
	}
	if opaqueNamed(l.Typ) {
		return l.Typ.(*types.Named).Obj().Name()
	}
	switch u := l.Typ.Underlying().(type) {
	case *types.Basic:
		return u.Name()
	case *types.Pointer:
		return "ptr"
	case *types.Map:
		return "map"
	case *types.Chan:
		return "chan"
	case *types.Signature:
		return "func"
	}
	return "x"
}

func objKey(root types.Type, leaf int) string {
	return fmt.Sprintf("H|%s|%d", typeKey(root), leaf)
}

func arrKey(elem types.Type, leaf int) string {
	return fmt.Sprintf("A|%s|%d", elemKey(elem), leaf)
}

// intRange returns the value range of an integer leaf type.
func intRange(t types.Type) (lo, hi Term, ok bool) {
	b, isB := t.Underlying().(*types.Basic)
	if !isB {
		return Term{}, Term{}, false
	}
	switch b.Kind() {
	case types.Uint8:
		return IntLit(0), IntLit(255), true
	case types.Uint16:
		return IntLit(0), IntLit(65535), true
	case types.Uint32:
		return IntLit(0), IntLit(4294967295), true
	case types.Uint64, types.Uint, types.Uintptr:
		return IntLit(0), Term{"18446744073709551615", SInt}, true
	case types.Int8:
		return IntLit(-128), IntLit(127), true
	case types.Int16:
		return IntLit(-32768), IntLit(32767), true
	case types.Int32:
		return IntLit(-2147483648), IntLit(2147483647), true
	case types.Int64, types.Int:
		return Term{"(- 9223372036854775808)", SInt}, Term{"9223372036854775807", SInt}, true
	case types.UntypedInt, types.UntypedRune:
		return Term{}, Term{}, false
	}
	return Term{}, Term{}, false
}

func isUnsigned(t types.Type) (bits uint, ok bool) {
	b, isB := t.Underlying().(*types.Basic)
	if !isB {
		return 0, false
	}
	switch b.Kind() {
	case types.Uint8:
		return 8, true
	case types.Uint16:
		return 16, true
	case types.Uint32:
		return 32, true
	case types.Uint64, types.Uint, types.Uintptr:
		return 64, true
	}
	return 0, false
}

func isSigned(t types.Type) (bits uint, ok bool) {
	b, isB := t.Underlying().(*types.Basic)
	if !isB {
		return 0, false
	}
	switch b.Kind() {
	case types.Int8:
		return 8, true
	case types.Int16:
		return 16, true
	case types.Int32:
		return 32, true
	case types.Int64, types.Int:
		return 64, true
	}
	return 0, false
}

// typeInv returns the invariant of a flattened value of type t.
func typeInv(t types.Type, ls []Term) Term {
	var cs []Term
	lay := layout(t)
	for i, l := range lay {
		switch l.Role {
		case "":
			if lo, hi, ok := intRange(l.Typ); ok && l.Sort == SInt {
				cs = append(cs, Le(lo, ls[i]), Le(ls[i], hi))
			} else if l.Sort == SInt {
				switch l.Typ.Underlying().(type) {
				case *types.Pointer, *types.Map, *types.Chan, *types.Signature:
					cs = append(cs, Ge(ls[i], IntLit(0)))
				}
			}
		case "base":
			cs = append(cs, Ge(ls[i], IntLit(0)))
		case "off":
			cs = append(cs, Ge(ls[i], IntLit(0)))
		case "len":
			cs = append(cs, Ge(ls[i], IntLit(0)), Le(ls[i], ls[i+1]))
			// nil slice: base 0 implies len = cap = 0
			cs = append(cs, Implies(Eq(ls[i-2], IntLit(0)), Eq(ls[i+1], IntLit(0))))
		case "cap":
			cs = append(cs, Le(ls[i], Term{"4611686018427387904", SInt}))
		case "tid":
			cs = append(cs, Ge(ls[i], IntLit(0)))
		}
	}
	return And(cs...)
}

func zeroLeaves(t types.Type) []Term {
	lay := layout(t)
	out := make([]Term, len(lay))
	for i, l := range lay {
		switch l.Sort {
		case SInt:
			out[i] = IntLit(0)
		case SBool:
			out[i] = TFalse
		case SStr:
			out[i] = Term{"str_empty", SStr}
		}
	}
	return out
}

func deref(t types.Type) types.Type {
	if p, ok := t.Underlying().(*types.Pointer); ok {
		return p.Elem()
	}
	panic(fmt.Sprintf("deref of non-pointer %v", t))
}

// refsBelow: every reference leaf of the value denotes an allocated object.
func refsBelow(t types.Type, ls []Term, alloc Term) Term {
	var cs []Term
	for i, l := range layout(t) {
		switch l.Role {
		case "base":
			cs = append(cs, Lt(ls[i], alloc))
		case "":
			if l.Sort == SInt {
				switch l.Typ.Underlying().(type) {
				case *types.Pointer, *types.Map, *types.Chan:
					cs = append(cs, Lt(ls[i], alloc))
				}
			}
		}
	}
	return And(cs...)
}

// refsBelowEach: like refsBelow with one frontier per leaf.
func refsBelowEach(t types.Type, ls []Term, bounds []Term) Term {
	var cs []Term
	for i, l := range layout(t) {
		switch l.Role {
		case "base":
			cs = append(cs, Lt(ls[i], bounds[i]))
		case "":
			if l.Sort == SInt {
				switch l.Typ.Underlying().(type) {
				case *types.Pointer, *types.Map, *types.Chan:
					cs = append(cs, Lt(ls[i], bounds[i]))
				}
			}
		}
	}
	return And(cs...)
}
