package main

// Loading of /repo (build tag verif), discovery of contract blocks (//@ ...)
// in *_verif.go files, generation of the synthetic clause functions (supplied
// to go/packages through an overlay so that go/types checks every clause
// against the real declarations), and SSA construction.

import (
	"fmt"
	"go/ast"
	"go/parser"
	"go/printer"
	"go/scanner"
	"go/token"
	"go/types"
	"os"
	"path/filepath"
	"sort"
	"strconv"
	"strings"

	"golang.org/x/tools/go/packages"
	"golang.org/x/tools/go/ssa"
	"golang.org/x/tools/go/ssa/ssautil"
)

const modulePath = "github.com/emersion/go-imap/v2"

type ClauseKind string

const (
	KRequires  ClauseKind = "requires"
	KEnsures   ClauseKind = "ensures"
	KInvariant ClauseKind = "invariant"
	KDecreases ClauseKind = "decreases"
	KPanicsIf  ClauseKind = "panics-only-if"
	KCallsite  ClauseKind = "callsite"
	KAssert    ClauseKind = "assert"
)

type Clause struct {
	Kind    ClauseKind
	Text    string // as written
	GoExpr  string // rewritten Go expression
	Loop    int    // loop ordinal for invariant / decreases (-1 = function level)
	Callee  string // for callsite clauses
	SynName string // name of the synthetic function
	File    string
	Line    int
	Fn      *ssa.Function // the synthetic function once built
	Index   int           // ordinal among clauses of the same kind
	NParams int           // number of parameters of the synthetic function taken from the callee (callsite clauses)
	ExtraNames []string
	ExtraTypes []string
	OnlyProps  []string // clause counts only for these properties (ensures[C04] ...)
	RecvOnly   bool // rule clause: the synthetic function takes only the receiver
	Assumed    bool // `assumes`: a postcondition callers may rely on that is not proved against the body (listed)
}

func splitTopCommas(s string) []string {
	var out []string
	depth := 0
	start := 0
	for i := 0; i < len(s); i++ {
		switch s[i] {
		case '(', '[', '{':
			depth++
		case ')', ']', '}':
			depth--
		case ',':
			if depth == 0 {
				out = append(out, s[start:i])
				start = i + 1
			}
		}
	}
	out = append(out, s[start:])
	return out
}

// AtClause: `at "<anchor text>" with (name Type, ...) do <Go statements>`.
type AtClause struct {
	Anchor   string
	Names    []string
	Types    []string
	Body     string
	SynName  string
	Fn       *ssa.Function
	File     string
	Line     int
	AnchorLine int // resolved source line in the target function's file
}

type LoopSpec struct {
	Vars     []string // "name" or "cell:name"
	VarTypes []string
	Locals   []string // non-loop-carried local variables (by source name) made available to loop clauses
	LocalTypes []string
	Inv      []*Clause
	Dec      *Clause
}

type Block struct {
	Header   string // restated signature text ("func (s Set) search(q uint32) (i int, ok bool)")
	Pkg      string // package path
	File     string
	Line     int
	Props    []string
	Pre      []*Clause
	Post     []*Clause
	Loops    map[int]*LoopSpec
	Dec      *Clause
	PanicsIf []*Clause
	Callsite []*Clause
	Flags    map[string]bool // pure, lemma, trusted, overflow, may-diverge, panics-never, opaque, inline
	Modifies []string
	Fuel     int
	PanicsAssumed string
	At       []*AtClause // ghost statements executed before the first instruction of an anchored source line
	GhostInc []*Clause // ghost counter events: Callee field holds the counter name
	AssumeKinds map[string]string // obligation kinds assumed in this unit, with the stated reason
	LoopInvAll []*Clause // invariants of every loop (rules)
	IsRule   bool
	ClosureOf string // outer function header for closure blocks
	ClosureIdx int
	Captures []string // names of captured variables made available to clauses (after the closure's own parameters)
	CaptureTypes []string
	NClosureParams int
	Exclude  map[string]bool
	PropKinds map[string][]string // optional obligation-kind filter per property
	FromRule *Block
	PkgName  string
	// resolved
	RecvName   string
	RecvType   string // as written, e.g. "Set" or "*Set"
	FuncName   string
	ParamNames []string // receiver first (if any), then params
	ParamTypes []string
	ResNames   []string
	ResTypes   []string
	Target     *ssa.Function
	IsGhostDecl bool // the block documents a real (ghost) function declaration in the contract file
	Extern      string // import path of the dependency package whose function this (assumed) contract describes
}

func (b *Block) QualName() string {
	if b.ClosureOf != "" {
		return b.qualNameBase() + fmt.Sprintf("$%d", b.ClosureIdx+1)
	}
	return b.qualNameBase()
}

func (b *Block) qualNameBase() string {
	short := b.PkgName
	if short == "" {
		short = b.Pkg
		if i := strings.LastIndex(short, "/"); i >= 0 {
			short = short[i+1:]
		}
	}
	if b.RecvType != "" {
		rt := strings.TrimPrefix(b.RecvType, "*")
		if b.Extern != "" {
			rt = rt[strings.LastIndex(rt, ".")+1:]
		}
		return short + "." + rt + "." + b.FuncName
	}
	return short + "." + b.FuncName
}

type Loaded struct {
	Fset   *token.FileSet
	Pkgs   []*packages.Package
	Prog   *ssa.Program
	SSA    map[string]*ssa.Package // by package path
	Blocks []*Block
	ByFn   map[*ssa.Function]*Block
	RepoDir string
	Overlay map[string][]byte
	ByPath  map[string]*packages.Package
}

// rewriteClause turns the clause expression language into Go.
//   a ==> b            -> (!(a) || (b))
//   forall x T :: e    -> __forall(func(x T) bool { return e })
//   exists x T :: e    -> __exists(func(x T) bool { return e })
//   old(e)             -> __old(__oldEnter(), e)
func rewriteClause(src string) (string, error) {
	toks, err := lexClause(src)
	if err != nil {
		return "", err
	}
	return rewriteToks(toks)
}

type ctok struct {
	tok token.Token
	lit string
}

func lexClause(src string) ([]ctok, error) {
	var s scanner.Scanner
	fset := token.NewFileSet()
	file := fset.AddFile("", fset.Base(), len(src))
	var errs []string
	s.Init(file, []byte(src), func(pos token.Position, msg string) { errs = append(errs, msg) }, 0)
	var out []ctok
	for {
		_, tok, lit := s.Scan()
		if tok == token.EOF {
			break
		}
		if tok == token.SEMICOLON && lit == "\n" {
			continue
		}
		if lit == "" {
			lit = tok.String()
		}
		out = append(out, ctok{tok, lit})
	}
	if len(errs) > 0 {
		return nil, fmt.Errorf("clause %q: %s", src, strings.Join(errs, "; "))
	}
	// merge "==" ">" into "==>" and "<" "==>"... the Go scanner yields EQL GTR for "==>".
	var merged []ctok
	for i := 0; i < len(out); i++ {
		if out[i].tok == token.EQL && i+1 < len(out) && out[i+1].tok == token.GTR {
			merged = append(merged, ctok{token.ILLEGAL, "==>"})
			i++
			continue
		}
		if out[i].tok == token.COLON && i+1 < len(out) && out[i+1].tok == token.COLON {
			merged = append(merged, ctok{token.ILLEGAL, "::"})
			i++
			continue
		}
		merged = append(merged, out[i])
	}
	return merged, nil
}

func joinToks(toks []ctok) string {
	var b strings.Builder
	for i, t := range toks {
		if i > 0 {
			b.WriteByte(' ')
		}
		b.WriteString(t.lit)
	}
	return b.String()
}

func isOpen(t ctok) bool  { return t.tok == token.LPAREN || t.tok == token.LBRACK || t.tok == token.LBRACE }
func isClose(t ctok) bool { return t.tok == token.RPAREN || t.tok == token.RBRACK || t.tok == token.RBRACE }

func rewriteToks(toks []ctok) (string, error) {
	if len(toks) == 0 {
		return "", fmt.Errorf("empty expression")
	}
	// quantifier at the head
	if toks[0].tok == token.IDENT && (toks[0].lit == "forall" || toks[0].lit == "exists") && len(toks) > 3 && toks[1].tok == token.IDENT {
		// find "::"
		sep := -1
		for i := 2; i < len(toks); i++ {
			if toks[i].lit == "::" {
				sep = i
				break
			}
		}
		if sep < 0 {
			return "", fmt.Errorf("quantifier without '::'")
		}
		typ := joinToks(toks[2:sep])
		body, err := rewriteToks(toks[sep+1:])
		if err != nil {
			return "", err
		}
		return fmt.Sprintf("__%s(func(%s %s) bool { return %s })", toks[0].lit, toks[1].lit, typ, body), nil
	}
	// top-level implication (right associative, lowest precedence)
	depth := 0
	for i, t := range toks {
		if isOpen(t) {
			depth++
		} else if isClose(t) {
			depth--
		} else if depth == 0 && t.lit == "==>" {
			l, err := rewriteToks(toks[:i])
			if err != nil {
				return "", err
			}
			r, err := rewriteToks(toks[i+1:])
			if err != nil {
				return "", err
			}
			return "(!(" + l + ") || (" + r + "))", nil
		}
	}
	// top-level && / || with a quantifier or implication further right: split
	// on the lowest-precedence operator so that "a && forall ..." works.
	for _, op := range []token.Token{token.LOR, token.LAND} {
		depth = 0
		for i, t := range toks {
			if isOpen(t) {
				depth++
			} else if isClose(t) {
				depth--
			} else if depth == 0 && t.tok == op {
				l, err := rewriteToks(toks[:i])
				if err != nil {
					return "", err
				}
				r, err := rewriteToks(toks[i+1:])
				if err != nil {
					return "", err
				}
				return "(" + l + " " + t.lit + " " + r + ")", nil
			}
		}
	}
	// otherwise: rewrite inside bracketed groups
	var b strings.Builder
	for i := 0; i < len(toks); i++ {
		t := toks[i]
		if isOpen(t) {
			// find the matching close
			d := 0
			j := i
			for ; j < len(toks); j++ {
				if isOpen(toks[j]) {
					d++
				} else if isClose(toks[j]) {
					d--
					if d == 0 {
						break
					}
				}
			}
			if j >= len(toks) {
				return "", fmt.Errorf("unbalanced brackets")
			}
			isOld := i > 0 && toks[i-1].tok == token.IDENT && toks[i-1].lit == "old" && t.tok == token.LPAREN
			b.WriteString(t.lit)
			if isOld {
				b.WriteString("__oldEnter(), ")
			}
			if j > i+1 {
				// split on top-level commas
				start := i + 1
				dd := 0
				for k := i + 1; k <= j; k++ {
					if k < j && isOpen(toks[k]) {
						dd++
					} else if k < j && isClose(toks[k]) {
						dd--
					}
					if (k == j) || (dd == 0 && toks[k].tok == token.COMMA) || (dd == 0 && toks[k].tok == token.COLON) {
						if k > start {
							inner, err := rewriteToks(toks[start:k])
							if err != nil {
								return "", err
							}
							b.WriteString(inner)
						}
						if k < j {
							b.WriteString(toks[k].lit + " ")
						}
						start = k + 1
					}
				}
			}
			b.WriteString(toks[j].lit)
			i = j
			continue
		}
		if t.tok == token.IDENT && t.lit == "old" && i+1 < len(toks) && toks[i+1].tok == token.LPAREN {
			b.WriteString("__old")
			continue
		}
		if b.Len() > 0 {
			b.WriteByte(' ')
		}
		b.WriteString(t.lit)
	}
	return b.String(), nil
}

// parseBlocks extracts the //@ blocks of one contract file.
func parseBlocks(fset *token.FileSet, path string, src []byte, pkgPath string) ([]*Block, error) {
	f, err := parser.ParseFile(fset, path, src, parser.ParseComments)
	if err != nil {
		return nil, err
	}
	var blocks []*Block
	docOf := map[*ast.CommentGroup]*ast.FuncDecl{}
	for _, d := range f.Decls {
		if fd, ok := d.(*ast.FuncDecl); ok && fd.Doc != nil {
			docOf[fd.Doc] = fd
		}
	}
	for _, cg := range f.Comments {
		var cur *Block
		flush := func() {
			if cur != nil {
				cur.PkgName = f.Name.Name
				if cur.Extern != "" {
					cur.PkgName = cur.Extern[strings.LastIndex(cur.Extern, "/")+1:]
				}
				blocks = append(blocks, cur)
			}
			cur = nil
		}
		fd := docOf[cg]
		for _, c := range cg.List {
			text := c.Text
			if strings.HasPrefix(text, "// @") { // gofmt's spelling inside doc comments
				text = "//@" + text[4:]
			}
			if !strings.HasPrefix(text, "//@") {
				continue
			}
			line := fset.Position(c.Pos()).Line
			body := strings.TrimSpace(text[3:])
			if body == "" {
				continue
			}
			word, rest := splitWord(body)
			var onlyProps []string
			if i := strings.Index(word, "["); i > 0 && strings.HasSuffix(word, "]") {
				onlyProps = strings.Split(word[i+1:len(word)-1], ",")
				word = word[:i]
			}
			if word == "rule" {
				flush()
				cur = &Block{Header: "func " + rest + " __rule()", Pkg: pkgPath, File: path, Line: line, Loops: map[int]*LoopSpec{}, Flags: map[string]bool{}, IsRule: true, Exclude: map[string]bool{}}
				if err := parseHeader(cur); err != nil {
					return nil, fmt.Errorf("%s:%d: %v", path, line, err)
				}
				continue
			}
			if word == "closure" {
				flush()
				// //@ closure <k> of func <outer signature>
				kstr, rest2 := splitWord(rest)
				k, err := strconv.Atoi(kstr)
				ofw, outer := splitWord(rest2)
				if err != nil || ofw != "of" {
					return nil, fmt.Errorf("%s:%d: closure <k> of func <signature>", path, line)
				}
				cur = &Block{Header: outer, Pkg: pkgPath, File: path, Line: line, Loops: map[int]*LoopSpec{}, Flags: map[string]bool{}, ClosureOf: outer, ClosureIdx: k}
				if err := parseHeader(cur); err != nil {
					return nil, fmt.Errorf("%s:%d: %v", path, line, err)
				}
				// the clause functions take the closure's parameters and captures, not the outer function's
				cur.ParamNames, cur.ParamTypes, cur.ResNames, cur.ResTypes = nil, nil, nil, nil
				continue
			}
			if word == "extern" {
				// //@ extern <import path> func <signature, types qualified as in this file>
				flush()
				ipath, sig := splitWord(rest)
				cur = &Block{Header: sig, Pkg: pkgPath, File: path, Line: line, Loops: map[int]*LoopSpec{}, Flags: map[string]bool{"trusted": true}, Extern: ipath}
				if err := parseHeader(cur); err != nil {
					return nil, fmt.Errorf("%s:%d: %v", path, line, err)
				}
				continue
			}
			if word == "func" {
				flush()
				cur = &Block{Header: body, Pkg: pkgPath, File: path, Line: line, Loops: map[int]*LoopSpec{}, Flags: map[string]bool{}}
				if err := parseHeader(cur); err != nil {
					return nil, fmt.Errorf("%s:%d: %v", path, line, err)
				}
				continue
			}
			if cur == nil {
				if fd == nil {
					return nil, fmt.Errorf("%s:%d: clause outside a //@ func block", path, line)
				}
				var hb strings.Builder
				fdCopy := *fd
				fdCopy.Body = nil
				fdCopy.Doc = nil
				printer.Fprint(&hb, fset, &fdCopy)
				cur = &Block{Header: strings.TrimSpace(hb.String()), Pkg: pkgPath, File: path, Line: line, Loops: map[int]*LoopSpec{}, Flags: map[string]bool{}, IsGhostDecl: true}
				if err := parseHeader(cur); err != nil {
					return nil, fmt.Errorf("%s:%d: %v", path, line, err)
				}
			}
			mk := func(kind ClauseKind, expr string, loop int) (*Clause, error) {
				g, err := rewriteClause(expr)
				if err != nil {
					return nil, fmt.Errorf("%s:%d: %v", path, line, err)
				}
				return &Clause{Kind: kind, Text: expr, GoExpr: g, Loop: loop, File: path, Line: line, OnlyProps: onlyProps}, nil
			}
			switch word {
			case "params", "captures", "results":
				r := strings.TrimSpace(rest)
				r = strings.TrimSuffix(strings.TrimPrefix(r, "("), ")")
				for _, pv := range splitTopCommas(r) {
					pv = strings.TrimSpace(pv)
					if pv == "" {
						continue
					}
					nm, ty := splitWord(pv)
					switch word {
					case "params":
						cur.ParamNames = append(cur.ParamNames, nm)
						cur.ParamTypes = append(cur.ParamTypes, ty)
						cur.NClosureParams++
					case "captures":
						cur.Captures = append(cur.Captures, nm)
						cur.CaptureTypes = append(cur.CaptureTypes, ty)
						cur.ParamNames = append(cur.ParamNames, nm)
						cur.ParamTypes = append(cur.ParamTypes, ty)
					case "results":
						cur.ResNames = append(cur.ResNames, nm)
						cur.ResTypes = append(cur.ResTypes, ty)
					}
				}
			case "fuel":
				n, err := strconv.Atoi(strings.TrimSpace(rest))
				if err != nil {
					return nil, fmt.Errorf("%s:%d: bad fuel", path, line)
				}
				cur.Fuel = n
			case "at":
				// at "anchor" with (a T, b U) do stmt; stmt
				r := strings.TrimSpace(rest)
				if !strings.HasPrefix(r, "\"") {
					return nil, fmt.Errorf("%s:%d: at needs a quoted anchor", path, line)
				}
				e := strings.Index(r[1:], "\"")
				if e < 0 {
					return nil, fmt.Errorf("%s:%d: unterminated anchor", path, line)
				}
				ac := &AtClause{Anchor: r[1 : 1+e], File: path, Line: line}
				r = strings.TrimSpace(r[2+e:])
				if strings.HasPrefix(r, "with") {
					r = strings.TrimSpace(r[4:])
					ce := strings.Index(r, ")")
					for _, pv := range splitTopCommas(strings.TrimPrefix(r[:ce], "(")) {
						pv = strings.TrimSpace(pv)
						if pv == "" {
							continue
						}
						nm, ty := splitWord(pv)
						ac.Names = append(ac.Names, nm)
						ac.Types = append(ac.Types, ty)
					}
					r = strings.TrimSpace(r[ce+1:])
				}
				if !strings.HasPrefix(r, "do ") {
					return nil, fmt.Errorf("%s:%d: at ... do <statements>", path, line)
				}
				ac.Body = strings.TrimSpace(r[3:])
				cur.At = append(cur.At, ac)
			case "ghost-inc":
				name, rest2 := splitWord(rest)
				kw, cond := splitWord(rest2)
				if kw != "when" {
					return nil, fmt.Errorf("%s:%d: ghost-inc <counter> when <condition>", path, line)
				}
				cl, err := mk(KRequires, cond, -1)
				if err != nil {
					return nil, err
				}
				cl.Callee = name
				cl.Index = len(cur.GhostInc)
				cur.GhostInc = append(cur.GhostInc, cl)
			case "assume-kind":
				k, reason := splitWord(rest)
				if cur.AssumeKinds == nil {
					cur.AssumeKinds = map[string]string{}
				}
				cur.AssumeKinds[k] = reason
			case "exclude":
				if cur.Exclude == nil {
					cur.Exclude = map[string]bool{}
				}
				for _, n := range strings.Fields(rest) {
					cur.Exclude[n] = true
				}
			case "props":
				for _, pw := range strings.Fields(rest) {
					if i := strings.Index(pw, ":"); i > 0 {
						if cur.PropKinds == nil {
							cur.PropKinds = map[string][]string{}
						}
						// a repeated "props Cxx:kinds" adds kinds, it never drops some
						for _, k := range strings.Split(pw[i+1:], ",") {
							if !contains(cur.PropKinds[pw[:i]], k) {
								cur.PropKinds[pw[:i]] = append(cur.PropKinds[pw[:i]], k)
							}
						}
						pw = pw[:i]
					}
					cur.Props = append(cur.Props, pw)
				}
			case "requires":
				cl, err := mk(KRequires, rest, -1)
				if err != nil {
					return nil, err
				}
				cl.Index = len(cur.Pre)
				cur.Pre = append(cur.Pre, cl)
			case "ensures", "assumes":
				cl, err := mk(KEnsures, rest, -1)
				if err != nil {
					return nil, err
				}
				cl.Assumed = word == "assumes"
				cl.Index = len(cur.Post)
				cur.Post = append(cur.Post, cl)
			case "loopinv":
				cl, err := mk(KInvariant, rest, -2)
				if err != nil {
					return nil, err
				}
				cl.Index = len(cur.LoopInvAll)
				cur.LoopInvAll = append(cur.LoopInvAll, cl)
			case "decreases":
				cl, err := mk(KDecreases, rest, -1)
				if err != nil {
					return nil, err
				}
				cur.Dec = cl
			case "loop":
				nstr, rest2 := splitWord(rest)
				n, err := strconv.Atoi(nstr)
				if err != nil {
					return nil, fmt.Errorf("%s:%d: bad loop ordinal %q", path, line, nstr)
				}
				ls := cur.Loops[n]
				if ls == nil {
					ls = &LoopSpec{}
					cur.Loops[n] = ls
				}
				sub, rest3 := splitWord(rest2)
				switch sub {
				case "vars":
					r := strings.TrimSpace(rest3)
					r = strings.TrimPrefix(r, "(")
					r = strings.TrimSuffix(r, ")")
					for _, v := range splitTopCommas(r) {
						v = strings.TrimSpace(v)
						if v == "" {
							continue
						}
						isCell := false
						if strings.HasPrefix(v, "cell ") {
							isCell = true
							v = strings.TrimSpace(v[5:])
						}
						nm, ty := splitWord(v)
						if ty == "" {
							return nil, fmt.Errorf("%s:%d: loop variable %q needs a type", path, line, v)
						}
						if isCell {
							nm = "cell:" + nm
						}
						ls.Vars = append(ls.Vars, nm)
						ls.VarTypes = append(ls.VarTypes, ty)
					}
				case "locals":
					r := strings.TrimSpace(rest3)
					r = strings.TrimPrefix(r, "(")
					r = strings.TrimSuffix(r, ")")
					for _, v := range splitTopCommas(r) {
						v = strings.TrimSpace(v)
						if v == "" {
							continue
						}
						nm, ty := splitWord(v)
						ls.Locals = append(ls.Locals, nm)
						ls.LocalTypes = append(ls.LocalTypes, ty)
					}
				case "invariant":
					cl, err := mk(KInvariant, rest3, n)
					if err != nil {
						return nil, err
					}
					cl.Index = len(ls.Inv)
					ls.Inv = append(ls.Inv, cl)
				case "decreases":
					cl, err := mk(KDecreases, rest3, n)
					if err != nil {
						return nil, err
					}
					ls.Dec = cl
				default:
					return nil, fmt.Errorf("%s:%d: unknown loop clause %q", path, line, sub)
				}
			case "panics":
				if strings.HasPrefix(strings.TrimSpace(rest), "assumed-unreachable") {
					cur.Flags["panics-assumed"] = true
					cur.PanicsAssumed = strings.TrimSpace(strings.TrimPrefix(strings.TrimSpace(rest), "assumed-unreachable"))
				} else if strings.TrimSpace(rest) == "never" {
					cur.Flags["panics-never"] = true
				} else if strings.HasPrefix(strings.TrimSpace(rest), "only if") {
					cl, err := mk(KPanicsIf, strings.TrimSpace(strings.TrimPrefix(strings.TrimSpace(rest), "only if")), -1)
					if err != nil {
						return nil, err
					}
					cl.Index = len(cur.PanicsIf)
					cur.PanicsIf = append(cur.PanicsIf, cl)
				} else {
					return nil, fmt.Errorf("%s:%d: bad panics clause", path, line)
				}
			case "callsite":
				ri := strings.Index(rest, " requires ")
				if ri < 0 {
					return nil, fmt.Errorf("%s:%d: callsite clause needs 'requires'", path, line)
				}
				head := strings.TrimSpace(rest[:ri])
				rest3 := strings.TrimSpace(rest[ri+len(" requires "):])
				callee := head
				var cpn, cpt []string
				if pi := strings.Index(head, "("); pi >= 0 {
					callee = strings.TrimSpace(head[:pi])
					plist := strings.TrimSuffix(strings.TrimSpace(head[pi+1:]), ")")
					for _, pv := range splitTopCommas(plist) {
						pv = strings.TrimSpace(pv)
						if pv == "" {
							continue
						}
						nm, ty := splitWord(pv)
						cpn = append(cpn, nm)
						cpt = append(cpt, ty)
					}
				}
				cl, err := mk(KCallsite, rest3, -1)
				if err != nil {
					return nil, err
				}
				cl.Callee = callee
				cl.ExtraNames, cl.ExtraTypes = cpn, cpt
				cl.NParams = len(cpn)
				cl.Index = len(cur.Callsite)
				cur.Callsite = append(cur.Callsite, cl)
			case "modifies":
				for _, m := range strings.Split(rest, ",") {
					m = strings.TrimSpace(m)
					if m != "" {
						cur.Modifies = append(cur.Modifies, m)
					}
				}
				cur.Flags["has-modifies"] = true
			case "fresh-arrays", "post-all", "pure", "lemma", "hide-requires", "checked-requires", "global-invariant", "trusted", "overflow", "may-diverge", "opaque", "inline", "assume-contract", "sweep", "nosafety":
				cur.Flags[word] = true
			default:
				return nil, fmt.Errorf("%s:%d: unknown clause %q", path, line, word)
			}
		}
		flush()
	}
	return blocks, nil
}

func splitWord(s string) (string, string) {
	s = strings.TrimSpace(s)
	i := strings.IndexAny(s, " \t")
	if i < 0 {
		return s, ""
	}
	return s[:i], strings.TrimSpace(s[i+1:])
}

// parseHeader parses the restated signature.
func parseHeader(b *Block) error {
	src := "package p\n" + b.Header + "\n"
	fset := token.NewFileSet()
	f, err := parser.ParseFile(fset, "", src, 0)
	if err != nil {
		return fmt.Errorf("bad signature %q: %v", b.Header, err)
	}
	fd, ok := f.Decls[0].(*ast.FuncDecl)
	if !ok {
		return fmt.Errorf("bad signature %q", b.Header)
	}
	b.FuncName = fd.Name.Name
	str := func(e ast.Expr) string {
		var sb strings.Builder
		printer.Fprint(&sb, fset, e)
		return sb.String()
	}
	if fd.Recv != nil && len(fd.Recv.List) == 1 {
		r := fd.Recv.List[0]
		b.RecvType = str(r.Type)
		name := "recv"
		if len(r.Names) == 1 {
			name = r.Names[0].Name
		}
		b.RecvName = name
		b.ParamNames = append(b.ParamNames, name)
		b.ParamTypes = append(b.ParamTypes, b.RecvType)
	}
	n := 0
	if fd.Type.Params != nil {
		for _, fl := range fd.Type.Params.List {
			t := str(fl.Type)
			if strings.HasPrefix(t, "...") {
				t = "[]" + t[3:]
			}
			if len(fl.Names) == 0 {
				b.ParamNames = append(b.ParamNames, fmt.Sprintf("p%d", n))
				b.ParamTypes = append(b.ParamTypes, t)
				n++
			}
			for _, nm := range fl.Names {
				name := nm.Name
				if name == "_" {
					name = fmt.Sprintf("p%d", n)
				}
				b.ParamNames = append(b.ParamNames, name)
				b.ParamTypes = append(b.ParamTypes, t)
				n++
			}
		}
	}
	if fd.Type.Results != nil {
		k := 0
		for _, fl := range fd.Type.Results.List {
			t := str(fl.Type)
			if len(fl.Names) == 0 {
				b.ResNames = append(b.ResNames, fmt.Sprintf("result%d", k))
				b.ResTypes = append(b.ResTypes, t)
				k++
			}
			for _, nm := range fl.Names {
				b.ResNames = append(b.ResNames, nm.Name)
				b.ResTypes = append(b.ResTypes, t)
				k++
			}
		}
		if len(b.ResNames) == 1 && b.ResNames[0] == "result0" {
			b.ResNames[0] = "result"
		}
	}
	return nil
}

const ghostPrelude = `
// ---- generated by govc: quantifier / old-state helpers (overlay only) ----
func __forall[T any](f func(T) bool) bool { panic("ghost") }
func __exists[T any](f func(T) bool) bool { panic("ghost") }
func __old[T any](tok int, x T) T { return x }
func __oldEnter() int { return 0 }
`

// synthesize appends the synthetic clause functions for the blocks of one file.
func synthesize(blocks []*Block, counter *int) string {
	var b strings.Builder
	emit := func(blk *Block, cl *Clause, extraNames, extraTypes []string, withResults bool, resType string) {
		*counter++
		cl.SynName = fmt.Sprintf("__c%d_%s", *counter, strings.ReplaceAll(string(cl.Kind), "-", "_"))
		var ps []string
		for i, n := range blk.ParamNames {
			ps = append(ps, n+" "+blk.ParamTypes[i])
		}
		if withResults {
			for i, n := range blk.ResNames {
				ps = append(ps, n+" "+blk.ResTypes[i])
			}
		}
		for i, n := range extraNames {
			ps = append(ps, n+" "+extraTypes[i])
		}
		fmt.Fprintf(&b, "//line %s:%d\nfunc %s(%s) %s { return %s }\n", cl.File, cl.Line, cl.SynName, strings.Join(ps, ", "), resType, cl.GoExpr)
	}
	for _, blk := range blocks {
		for _, cl := range blk.Pre {
			emit(blk, cl, nil, nil, false, "bool")
		}
		for _, cl := range blk.Post {
			emit(blk, cl, nil, nil, !blk.IsRule, "bool")
		}
		for _, cl := range blk.PanicsIf {
			emit(blk, cl, nil, nil, false, "bool")
		}
		for _, cl := range blk.LoopInvAll {
			emit(blk, cl, nil, nil, false, "bool")
		}
		for _, cl := range blk.GhostInc {
			emit(blk, cl, nil, nil, false, "bool")
		}
		for _, ac := range blk.At {
			*counter++
			ac.SynName = fmt.Sprintf("__c%d_at", *counter)
			var ps []string
			for i, n := range blk.ParamNames {
				ps = append(ps, n+" "+blk.ParamTypes[i])
			}
			for i, n := range ac.Names {
				ps = append(ps, n+" "+ac.Types[i])
			}
			fmt.Fprintf(&b, "//line %s:%d\nfunc %s(%s) { %s }\n", ac.File, ac.Line, ac.SynName, strings.Join(ps, ", "), ac.Body)
		}
		if blk.Dec != nil {
			emit(blk, blk.Dec, nil, nil, false, "int")
		}
		var ords []int
		for n := range blk.Loops {
			ords = append(ords, n)
		}
		sort.Ints(ords)
		for _, n := range ords {
			ls := blk.Loops[n]
			var names []string
			for _, v := range ls.Vars {
				names = append(names, strings.TrimPrefix(v, "cell:"))
			}
			allNames := append(append([]string{}, names...), ls.Locals...)
			allTypes := append(append([]string{}, ls.VarTypes...), ls.LocalTypes...)
			for _, cl := range ls.Inv {
				emit(blk, cl, allNames, allTypes, false, "bool")
			}
			if ls.Dec != nil {
				emit(blk, ls.Dec, allNames, allTypes, false, "int")
			}
		}
		for _, cl := range blk.Callsite {
			emit(blk, cl, cl.ExtraNames, cl.ExtraTypes, false, "bool")
		}
	}
	return b.String()
}

// LateSpec describes a clause function whose extra parameter types come from
// the type-checked program (loop variables, callee parameters).
type lateReq struct {
	blk    *Block
	cl     *Clause
	names  []string
	types  []string
	result string
}

func writeLate(reqs []lateReq, counter *int) string {
	var b strings.Builder
	for _, r := range reqs {
		*counter++
		r.cl.SynName = fmt.Sprintf("__c%d_%s", *counter, strings.ReplaceAll(string(r.cl.Kind), "-", "_"))
		var ps []string
		for i, n := range r.blk.ParamNames {
			ps = append(ps, n+" "+r.blk.ParamTypes[i])
		}
		for i, n := range r.names {
			ps = append(ps, n+" "+r.types[i])
		}
		fmt.Fprintf(&b, "//line %s:%d\nfunc %s(%s) %s { return %s }\n", r.cl.File, r.cl.Line, r.cl.SynName, strings.Join(ps, ", "), r.result, r.cl.GoExpr)
	}
	return b.String()
}

func loadConfig(repo string, overlay map[string][]byte) *packages.Config {
	env := append(os.Environ(), "GOFLAGS=-mod=mod", "GOPROXY=off", "GOSUMDB=off", "GOTOOLCHAIN=local", "CGO_ENABLED=0")
	return &packages.Config{
		Mode:       packages.LoadAllSyntax,
		Dir:        repo,
		BuildFlags: []string{"-tags=verif"},
		Overlay:    overlay,
		Env:        env,
	}
}

// contractFiles finds *_verif.go files in the repository.
func contractFiles(repo string) ([]string, error) {
	var out []string
	err := filepath.Walk(repo, func(p string, info os.FileInfo, err error) error {
		if err != nil {
			return err
		}
		if info.IsDir() && (info.Name() == ".git" || info.Name() == "vendor") {
			return filepath.SkipDir
		}
		if !info.IsDir() && strings.HasSuffix(p, "_verif.go") {
			out = append(out, p)
		}
		return nil
	})
	sort.Strings(out)
	return out, err
}

func pkgPathOfFile(repo, file string) string {
	rel, _ := filepath.Rel(repo, filepath.Dir(file))
	if rel == "." {
		return modulePath
	}
	return modulePath + "/" + filepath.ToSlash(rel)
}

// Load loads the repository with contracts. It runs the type checker twice:
// pass 1 with the function-level clauses, to learn the types of locals and
// callee parameters; pass 2 with loop / callsite clause functions added.
func Load(repo string, patterns []string) (*Loaded, error) {
	files, err := contractFiles(repo)
	if err != nil {
		return nil, err
	}
	fset0 := token.NewFileSet()
	var all []*Block
	perFile := map[string][]*Block{}
	srcs := map[string][]byte{}
	for _, f := range files {
		src, err := os.ReadFile(f)
		if err != nil {
			return nil, err
		}
		srcs[f] = src
		bl, err := parseBlocks(fset0, f, src, pkgPathOfFile(repo, f))
		if err != nil {
			return nil, err
		}
		perFile[f] = bl
		all = append(all, bl...)
	}
	counter := 0
	overlay := map[string][]byte{}
	base := map[string]string{}
	_ = ghostPrelude
	for _, f := range files {
		s := string(srcs[f])
		dir := filepath.Dir(f)
		_ = dir
		s += synthesize(perFile[f], &counter)
		base[f] = s
		overlay[f] = []byte(s)
	}

	needLate := false

	cfg := loadConfig(repo, overlay)
	pkgs, err := packages.Load(cfg, patterns...)
	if err != nil {
		return nil, err
	}
	if n := countErrors(pkgs); n > 0 {
		return nil, fmt.Errorf("%d package errors (pass 1):\n%s", n, errorText(pkgs))
	}
	if needLate {
		// resolve types of loop variables / callee parameters from pass 1
		byPath := map[string]*packages.Package{}
		packages.Visit(pkgs, nil, func(p *packages.Package) { byPath[p.PkgPath] = p })
		lateByFile := map[string][]lateReq{}
		for _, b := range all {
			pkg := byPath[b.Pkg]
			if pkg == nil {
				return nil, fmt.Errorf("%s:%d: package %s not loaded", b.File, b.Line, b.Pkg)
			}
			if b.Extern != "" {
				continue
			}
			obj, fdecl := findFuncDecl(pkg, b)
			if obj == nil {
				return nil, fmt.Errorf("%s:%d: contract target not found: %s", b.File, b.Line, b.Header)
			}
			qual := func(p *types.Package) string {
				if p == pkg.Types {
					return ""
				}
				return p.Name()
			}
			for n, ls := range b.Loops {
				_ = n
				var tys []string
				for _, v := range ls.Vars {
					tv := findLocalVar(pkg, fdecl, v)
					if tv == nil {
						return nil, fmt.Errorf("%s:%d: loop variable %q not found in %s", b.File, b.Line, v, b.Header)
					}
					tys = append(tys, types.TypeString(tv.Type(), qual))
				}
				names := localParamNames(ls.Vars, b)
				for _, cl := range ls.Inv {
					lateByFile[b.File] = append(lateByFile[b.File], lateReq{b, cl, names, tys, "bool"})
				}
				if ls.Dec != nil {
					lateByFile[b.File] = append(lateByFile[b.File], lateReq{b, ls.Dec, names, tys, "int"})
				}
			}
			for _, cl := range b.Callsite {
				sig, err := findCalleeSig(pkg, byPath, cl.Callee)
				if err != nil {
					return nil, fmt.Errorf("%s:%d: %v", cl.File, cl.Line, err)
				}
				var names, tys []string
				if sig.Recv() != nil {
					names = append(names, "callee_recv")
					tys = append(tys, types.TypeString(sig.Recv().Type(), qual))
				}
				for i := 0; i < sig.Params().Len(); i++ {
					p := sig.Params().At(i)
					nm := p.Name()
					if nm == "" || nm == "_" {
						nm = fmt.Sprintf("arg%d", i)
					}
					names = append(names, "callee_"+nm)
					t := p.Type()
					tys = append(tys, types.TypeString(t, qual))
				}
				cl.NParams = len(names)
				lateByFile[b.File] = append(lateByFile[b.File], lateReq{b, cl, names, tys, "bool"})
			}
		}
		for f, reqs := range lateByFile {
			overlay[f] = []byte(base[f] + writeLate(reqs, &counter))
		}
		cfg = loadConfig(repo, overlay)
		pkgs, err = packages.Load(cfg, patterns...)
		if err != nil {
			return nil, err
		}
		if n := countErrors(pkgs); n > 0 {
			return nil, fmt.Errorf("%d package errors (pass 2):\n%s", n, errorText(pkgs))
		}
	}

	prog, spkgs := ssautil.AllPackages(pkgs, ssa.GlobalDebug|ssa.InstantiateGenerics)
	prog.Build()
	ld := &Loaded{Fset: cfg.Fset, Pkgs: pkgs, Prog: prog, SSA: map[string]*ssa.Package{}, Blocks: all, ByFn: map[*ssa.Function]*Block{}, RepoDir: repo, Overlay: overlay, ByPath: map[string]*packages.Package{}}
	packages.Visit(pkgs, nil, func(p *packages.Package) { ld.ByPath[p.PkgPath] = p })
	if cfg.Fset == nil && len(pkgs) > 0 {
		ld.Fset = pkgs[0].Fset
	}
	for _, sp := range spkgs {
		if sp != nil {
			ld.SSA[sp.Pkg.Path()] = sp
		}
	}
	// also index dependencies
	for _, sp := range prog.AllPackages() {
		ld.SSA[sp.Pkg.Path()] = sp
	}
	// resolve targets and clause functions
	for _, b := range all {
		sp := ld.SSA[b.Pkg]
		if sp == nil {
			return nil, fmt.Errorf("no SSA package %s", b.Pkg)
		}
		if b.IsRule {
			if err := bindClauses(sp, b); err != nil {
				return nil, err
			}
			for _, cl := range append(append(append(append([]*Clause{}, b.Pre...), b.Callsite...), b.Post...), b.LoopInvAll...) {
				cl.RecvOnly = true
			}
			continue
		}
		fn := lookupFunc(prog, sp, b)
		if fn != nil && b.ClosureOf != "" {
			if b.ClosureIdx >= len(fn.AnonFuncs) {
				return nil, fmt.Errorf("%s:%d: %s has no closure #%d", b.File, b.Line, b.Header, b.ClosureIdx)
			}
			fn = fn.AnonFuncs[b.ClosureIdx]
		}
		if fn == nil {
			return nil, fmt.Errorf("%s:%d: contract target not found in SSA: %s", b.File, b.Line, b.Header)
		}
		b.Target = fn
		if prev := ld.ByFn[fn]; prev != nil {
			return nil, fmt.Errorf("%s:%d: duplicate contract block for %s (also %s:%d)", b.File, b.Line, b.QualName(), prev.File, prev.Line)
		}
		ld.ByFn[fn] = b
		bind := func(cl *Clause) error {
			if cl == nil {
				return nil
			}
			f := sp.Func(cl.SynName)
			if f == nil {
				return fmt.Errorf("%s:%d: synthetic clause function %s missing", cl.File, cl.Line, cl.SynName)
			}
			cl.Fn = f
			return nil
		}
		var cls []*Clause
		cls = append(cls, b.Pre...)
		cls = append(cls, b.Post...)
		cls = append(cls, b.PanicsIf...)
		cls = append(cls, b.Callsite...)
		cls = append(cls, b.GhostInc...)
		cls = append(cls, b.Dec)
		for _, ls := range b.Loops {
			cls = append(cls, ls.Inv...)
			cls = append(cls, ls.Dec)
		}
		for _, cl := range cls {
			if err := bind(cl); err != nil {
				return nil, err
			}
		}
		for _, ac := range b.At {
			ac.Fn = sp.Func(ac.SynName)
			if ac.Fn == nil {
				return nil, fmt.Errorf("%s:%d: synthetic at-function missing", ac.File, ac.Line)
			}
			// resolve the anchor to a source line of the target function
			pos := prog.Fset.Position(fn.Pos())
			src, err := os.ReadFile(pos.Filename)
			if err != nil {
				return nil, err
			}
			lines := strings.Split(string(src), "\n")
			ac.AnchorLine = 0
			for ln := pos.Line; ln <= len(lines); ln++ {
				if strings.Contains(lines[ln-1], ac.Anchor) {
					ac.AnchorLine = ln
					break
				}
				if ln > pos.Line && strings.HasPrefix(lines[ln-1], "}") {
					break
				}
			}
		}
	}
	if err := expandRules(ld); err != nil {
		return nil, err
	}
	return ld, nil
}

func bindClauses(sp *ssa.Package, b *Block) error {
	var cls []*Clause
	cls = append(cls, b.Pre...)
	cls = append(cls, b.Post...)
	cls = append(cls, b.PanicsIf...)
	cls = append(cls, b.Callsite...)
	cls = append(cls, b.LoopInvAll...)
	for _, cl := range cls {
		f := sp.Func(cl.SynName)
		if f == nil {
			return fmt.Errorf("%s:%d: synthetic clause function %s missing", cl.File, cl.Line, cl.SynName)
		}
		cl.Fn = f
	}
	return nil
}

// expandRules creates one implicit block per method of a rule's receiver type
// and adds the rule's clauses to explicit blocks of such methods.
func expandRules(ld *Loaded) error {
	var rules []*Block
	var rest []*Block
	for _, b := range ld.Blocks {
		if b.IsRule {
			rules = append(rules, b)
		} else {
			rest = append(rest, b)
		}
	}
	ld.Blocks = rest
	for _, r := range rules {
		sp := ld.SSA[r.Pkg]
		tname := strings.TrimPrefix(r.RecvType, "*")
		tn, ok := sp.Pkg.Scope().Lookup(tname).(*types.TypeName)
		if !ok {
			return fmt.Errorf("%s:%d: rule receiver type %s not found", r.File, r.Line, tname)
		}
		var recv types.Type = tn.Type()
		if strings.HasPrefix(r.RecvType, "*") {
			recv = types.NewPointer(recv)
		}
		ms := ld.Prog.MethodSets.MethodSet(recv)
		var fns []*ssa.Function
		for i := 0; i < ms.Len(); i++ {
			fn := ld.Prog.MethodValue(ms.At(i))
			if fn == nil || fn.Synthetic != "" {
				continue
			}
			if !types.Identical(fn.Signature.Recv().Type(), recv) {
				continue
			}
			fns = append(fns, fn)
		}
		sort.Slice(fns, func(i, j int) bool { return fns[i].Name() < fns[j].Name() })
		for _, fn := range fns {
			if r.Exclude[fn.Name()] {
				continue
			}
			if eb := ld.ByFn[fn]; eb != nil {
				eb.Pre = append(append([]*Clause{}, r.Pre...), eb.Pre...)
				eb.Callsite = append(eb.Callsite, r.Callsite...)
				eb.LoopInvAll = append(eb.LoopInvAll, r.LoopInvAll...)
				if r.Flags["post-all"] {
					// the rule's postconditions also hold for explicitly specified methods
					eb.Post = append(eb.Post, r.Post...)
					for i := range eb.Post {
						eb.Post[i].Index = i
					}
				}
				for _, p := range r.Props {
					if !contains(eb.Props, p) {
						eb.Props = append(eb.Props, p)
					}
				}
				if r.PropKinds != nil {
					if eb.PropKinds == nil {
						eb.PropKinds = map[string][]string{}
					} else {
						cp := map[string][]string{}
						for k, v := range eb.PropKinds {
							cp[k] = v
						}
						eb.PropKinds = cp
					}
					for k, v := range r.PropKinds {
						// the kinds a rule asks for are added to those the block names itself
						merged := append([]string{}, eb.PropKinds[k]...)
						for _, kind := range v {
							if !contains(merged, kind) {
								merged = append(merged, kind)
							}
						}
						eb.PropKinds[k] = merged
					}
				}
				if eb.FromRule != nil && !r.Flags["post-all"] {
					// an implicit block created by an earlier rule: later rules add their postconditions too
					eb.Post = append(append([]*Clause{}, eb.Post...), r.Post...)
					for i := range eb.Post {
						eb.Post[i].Index = i
					}
				}
				for i := range eb.Pre {
					eb.Pre[i].Index = i
				}
				continue
			}
			nb := &Block{Header: "func (" + r.RecvName + " " + r.RecvType + ") " + fn.Name(), Pkg: r.Pkg, PkgName: r.PkgName, File: r.File, Line: r.Line, Props: r.Props, Pre: r.Pre, Post: r.Post, Callsite: r.Callsite, LoopInvAll: r.LoopInvAll, Loops: map[int]*LoopSpec{}, Flags: map[string]bool{}, RecvName: r.RecvName, RecvType: r.RecvType, FuncName: fn.Name(), Target: fn, FromRule: r, PropKinds: r.PropKinds}
			for k, v := range r.Flags {
				nb.Flags[k] = v
			}
			for i, p := range fn.Params {
				n := p.Name()
				if i == 0 {
					n = r.RecvName
				}
				nb.ParamNames = append(nb.ParamNames, n)
			}
			ld.Blocks = append(ld.Blocks, nb)
			ld.ByFn[fn] = nb
		}
	}
	return nil
}

// localParamNames: loop variables may shadow parameter names in the synthetic
// function; that would be a duplicate parameter. Such a variable is renamed
// in the parameter list only if it clashes (the clause then cannot see the
// parameter of that name, which is what shadowing means in the source too).
func localParamNames(vars []string, b *Block) []string {
	out := make([]string, len(vars))
	copy(out, vars)
	return out
}

func countErrors(pkgs []*packages.Package) int {
	n := 0
	packages.Visit(pkgs, nil, func(p *packages.Package) {
		if strings.HasPrefix(p.PkgPath, modulePath) {
			n += len(p.Errors)
		}
	})
	return n
}

func errorText(pkgs []*packages.Package) string {
	var b strings.Builder
	packages.Visit(pkgs, nil, func(p *packages.Package) {
		if strings.HasPrefix(p.PkgPath, modulePath) {
			for _, e := range p.Errors {
				fmt.Fprintf(&b, "  %s\n", e)
			}
		}
	})
	return b.String()
}

func findFuncDecl(pkg *packages.Package, b *Block) (types.Object, *ast.FuncDecl) {
	for _, f := range pkg.Syntax {
		for _, d := range f.Decls {
			fd, ok := d.(*ast.FuncDecl)
			if !ok || fd.Name.Name != b.FuncName {
				continue
			}
			if (fd.Recv == nil) != (b.RecvType == "") {
				continue
			}
			if fd.Recv != nil {
				var sb strings.Builder
				printer.Fprint(&sb, pkg.Fset, fd.Recv.List[0].Type)
				if sb.String() != b.RecvType {
					continue
				}
			}
			return pkg.TypesInfo.Defs[fd.Name], fd
		}
	}
	return nil, nil
}

// findLocalVar finds the first local variable (or parameter) with the given
// source name declared in the function.
func findLocalVar(pkg *packages.Package, fd *ast.FuncDecl, name string) *types.Var {
	var found *types.Var
	ast.Inspect(fd, func(n ast.Node) bool {
		if found != nil {
			return false
		}
		if id, ok := n.(*ast.Ident); ok && id.Name == name {
			if obj, ok := pkg.TypesInfo.Defs[id].(*types.Var); ok && obj != nil {
				found = obj
				return false
			}
		}
		return true
	})
	return found
}

// findCalleeSig resolves "Session.Fetch", "Conn.writeContReq", "fn" or
// "pkg.Type.Method" to a signature.
func findCalleeSig(pkg *packages.Package, byPath map[string]*packages.Package, name string) (*types.Signature, error) {
	parts := strings.Split(name, ".")
	scope := pkg.Types.Scope()
	if len(parts) == 3 {
		var target *packages.Package
		for _, p := range byPath {
			if p.Name == parts[0] && strings.HasPrefix(p.PkgPath, modulePath) {
				target = p
			}
		}
		if target == nil {
			for _, p := range byPath {
				if p.Name == parts[0] {
					target = p
				}
			}
		}
		if target == nil {
			return nil, fmt.Errorf("callsite: package %s not found", parts[0])
		}
		scope = target.Types.Scope()
		parts = parts[1:]
	}
	switch len(parts) {
	case 1:
		obj := scope.Lookup(parts[0])
		if fn, ok := obj.(*types.Func); ok {
			return fn.Type().(*types.Signature), nil
		}
	case 2:
		obj := scope.Lookup(parts[0])
		if tn, ok := obj.(*types.TypeName); ok {
			if it, ok := tn.Type().Underlying().(*types.Interface); ok {
				for i := 0; i < it.NumMethods(); i++ {
					if it.Method(i).Name() == parts[1] {
						sig := it.Method(i).Type().(*types.Signature)
						// give the receiver the interface type
						return types.NewSignatureType(types.NewVar(token.NoPos, nil, "recv", tn.Type()), nil, nil, sig.Params(), sig.Results(), sig.Variadic()), nil
					}
				}
			}
			m, _, _ := types.LookupFieldOrMethod(types.NewPointer(tn.Type()), true, tn.Pkg(), parts[1])
			if fn, ok := m.(*types.Func); ok {
				return fn.Type().(*types.Signature), nil
			}
		}
	}
	return nil, fmt.Errorf("callsite: callee %q not found", name)
}

func lookupFunc(prog *ssa.Program, sp *ssa.Package, b *Block) *ssa.Function {
	if b.Extern != "" {
		var ext *ssa.Package
		for _, p := range prog.AllPackages() {
			if p.Pkg.Path() == b.Extern {
				ext = p
			}
		}
		if ext == nil {
			return nil
		}
		if b.RecvType == "" {
			return ext.Func(b.FuncName)
		}
		tname := strings.TrimPrefix(b.RecvType, "*")
		tname = tname[strings.LastIndex(tname, ".")+1:]
		tn, ok := ext.Pkg.Scope().Lookup(tname).(*types.TypeName)
		if !ok {
			return nil
		}
		m, _, _ := types.LookupFieldOrMethod(types.NewPointer(tn.Type()), true, ext.Pkg, b.FuncName)
		if fn, ok := m.(*types.Func); ok {
			return prog.FuncValue(fn)
		}
		return nil
	}
	if b.RecvType == "" {
		name := b.FuncName
		// anonymous functions: "outer$1" or "Recv.outer$1" are resolved by the caller
		return sp.Func(name)
	}
	tname := strings.TrimPrefix(b.RecvType, "*")
	obj := sp.Pkg.Scope().Lookup(tname)
	tn, ok := obj.(*types.TypeName)
	if !ok {
		return nil
	}
	var recv types.Type = tn.Type()
	m, _, _ := types.LookupFieldOrMethod(types.NewPointer(recv), true, sp.Pkg, b.FuncName)
	fn, ok := m.(*types.Func)
	if !ok {
		return nil
	}
	return prog.FuncValue(fn)
}
