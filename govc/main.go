package main

import (
	"fmt"
	"os"
	"strings"
)

func main() {
	if len(os.Args) < 2 {
		fmt.Fprintln(os.Stderr, "usage: govc check|dump ...")
		os.Exit(2)
	}
	switch os.Args[1] {
	case "check":
		os.Exit(cmdCheck(os.Args[2:]))
	case "modset":
		os.Exit(cmdModset(os.Args[2:]))
	default:
		fmt.Fprintln(os.Stderr, "unknown command")
		os.Exit(2)
	}
}

func contains(xs []string, x string) bool {
	for _, y := range xs {
		if y == x {
			return true
		}
	}
	return false
}

// cmdModset: debugging aid — which functions reachable from fn write a heap key.
func cmdModset(args []string) int {
	ld, err := Load("/repo", []string{"./..."})
	if err != nil {
		fmt.Fprintln(os.Stderr, err)
		return 2
	}
	eng := newEngine(ld)
	for _, f := range eng.allFuncs {
		if f.String() != args[0] && f.Name() != args[0] {
			continue
		}
		ms := eng.modset(f)
		fmt.Println(f.String(), "all:", ms.all)
		for k := range ms.keys {
			if len(args) < 2 || strings.Contains(k, args[1]) {
				fmt.Println("  ", k)
			}
		}
		if len(args) >= 2 {
			for _, b := range f.Blocks {
				for _, in := range b.Instrs {
					for _, callee := range eng.callees(in) {
						m := eng.modset(callee)
						for k := range m.keys {
							if strings.Contains(k, args[1]) {
								fmt.Printf("   via %s (at %s): %s\n", callee.String(), ld.Prog.Fset.Position(in.Pos()), k)
							}
						}
					}
				}
			}
			for _, g := range eng.allFuncs {
				d := &modSet{keys: map[string]bool{}}
				for _, b := range g.Blocks {
					for _, in := range b.Instrs {
						eng.directWrites(g, in, d)
					}
				}
				for k := range d.keys {
					if strings.Contains(k, args[1]) {
						fmt.Println("   direct writer:", g.String(), k)
					}
				}
			}
		}
	}
	return 0
}
