package main

import (
	"encoding/json"
	"fmt"
	"os"
	"strings"
)

func main() {
	if len(os.Args) < 2 {
		fmt.Fprintln(os.Stderr, "usage: govc check|dump ...")
		os.Exit(2)
	}
	switch os.Args[1] {
	case "check":
		os.Exit(cmdCheck(os.Args[2:]))
	case "replay":
		os.Exit(cmdReplay(os.Args[2:]))
	case "cycles":
		// debugging aid: functions of the module that can reach themselves
		ld, err := Load("/repo", []string{"./..."})
		if err != nil {
			fmt.Fprintln(os.Stderr, err)
			os.Exit(2)
		}
		eng := newEngine(ld)
		for _, fn := range eng.allFuncs {
			if inModule(fn) && fn.Parent() == nil && eng.reaches(fn, fn) {
				fmt.Println(fn.String())
			}
		}
		os.Exit(0)
	case "modset":
		os.Exit(cmdModset(os.Args[2:]))
	default:
		fmt.Fprintln(os.Stderr, "unknown command")
		os.Exit(2)
	}
}

func contains(xs []string, x string) bool {
	for _, y := range xs {
		if y == x {
			return true
		}
	}
	return false
}

// cmdModset: debugging aid — which functions reachable from fn write a heap key.
func cmdModset(args []string) int {
	ld, err := Load("/repo", []string{"./..."})
	if err != nil {
		fmt.Fprintln(os.Stderr, err)
		return 2
	}
	eng := newEngine(ld)
	for _, f := range eng.allFuncs {
		if f.String() != args[0] && f.Name() != args[0] {
			continue
		}
		ms := eng.modset(f)
		fmt.Println(f.String(), "all:", ms.all)
		for k := range ms.keys {
			if len(args) < 2 || strings.Contains(k, args[1]) {
				fmt.Println("  ", k)
			}
		}
		if len(args) >= 2 {
			for _, b := range f.Blocks {
				for _, in := range b.Instrs {
					for _, callee := range eng.callees(in) {
						m := eng.modset(callee)
						for k := range m.keys {
							if strings.Contains(k, args[1]) {
								fmt.Printf("   via %s (at %s): %s\n", callee.String(), ld.Prog.Fset.Position(in.Pos()), k)
							}
						}
					}
				}
			}
			for _, g := range eng.allFuncs {
				d := &modSet{keys: map[string]bool{}}
				for _, b := range g.Blocks {
					for _, in := range b.Instrs {
						eng.directWrites(g, in, d)
					}
				}
				for k := range d.keys {
					if strings.Contains(k, args[1]) {
						fmt.Println("   direct writer:", g.String(), k)
					}
				}
			}
		}
	}
	return 0
}

// cmdReplay re-runs the generated test of a replay file against /repo.
func cmdReplay(args []string) int {
	if len(args) < 1 {
		fmt.Fprintln(os.Stderr, "usage: govc replay <replay.json>")
		return 2
	}
	data, err := os.ReadFile(args[0])
	if err != nil {
		fmt.Fprintln(os.Stderr, err)
		return 2
	}
	var rec map[string]interface{}
	if err := json.Unmarshal(data, &rec); err != nil {
		fmt.Fprintln(os.Stderr, err)
		return 2
	}
	fmt.Printf("obligation: %v\nclause: %v\nverdict recorded: %v\n", rec["obligation"], rec["clause"], rec["verdict"])
	src, _ := rec["replay_test_source"].(string)
	if src == "" {
		fmt.Println("no replayable test in this file (solver output only):")
		fmt.Println(rec["solver_output"])
		return 1
	}
	ld, err := Load("/repo", []string{"./..."})
	if err != nil {
		fmt.Fprintln(os.Stderr, err)
		return 2
	}
	eng := newEngine(ld)
	sv, err := newSolver(20)
	if err != nil {
		return 2
	}
	defer sv.cleanup()
	fnName, _ := rec["function"].(string)
	for _, b := range ld.Blocks {
		if b.QualName() == fnName {
			out, _ := eng.runReplay(sv, b.Target, src)
			fmt.Println(out)
			if strings.Contains(out, "GOVC-REPLAY: CONFIRMED") {
				return 1
			}
			return 0
		}
	}
	fmt.Println("function not found:", fnName)
	return 2
}
