package main

import (
	"flag"
	"fmt"
	"os"
	"sort"
	"strings"
	"time"
)

func main() {
	if len(os.Args) < 2 {
		fmt.Fprintln(os.Stderr, "usage: govc check|dump ...")
		os.Exit(2)
	}
	switch os.Args[1] {
	case "check":
		os.Exit(cmdCheck(os.Args[2:]))
	default:
		fmt.Fprintln(os.Stderr, "unknown command")
		os.Exit(2)
	}
}

func cmdCheck(args []string) int {
	fs := flag.NewFlagSet("check", flag.ExitOnError)
	prop := fs.String("property", "", "property id")
	tier := fs.String("tier", "quick", "quick|thorough")
	repo := fs.String("repo", "/repo", "repository")
	only := fs.String("fn", "", "only units whose name contains this")
	dump := fs.String("dump", "", "directory to dump SMT queries of failing obligations")
	verbose := fs.Bool("v", false, "verbose")
	fs.Parse(args)
	t0 := time.Now()
	ld, err := Load(*repo, []string{"./..."})
	if err != nil {
		fmt.Fprintln(os.Stderr, "load error:", err)
		return 2
	}
	fmt.Fprintf(os.Stderr, "loaded in %.1fs, %d contract blocks\n", time.Since(t0).Seconds(), len(ld.Blocks))
	eng := newEngine(ld)
	eng.tier = *tier
	eng.verbose = *verbose
	var units []*Unit
	for _, b := range ld.Blocks {
		if *prop != "" && !contains(b.Props, *prop) {
			continue
		}
		if *only != "" && !strings.Contains(b.QualName(), *only) {
			continue
		}
		if b.Flags["trusted"] || b.Flags["assume-contract"] {
			continue
		}
		u := eng.verifyBlock(b)
		units = append(units, u)
	}
	timeout := 20
	if *tier == "thorough" {
		timeout = 120
	}
	sv, err := newSolver(timeout)
	if err != nil {
		fmt.Fprintln(os.Stderr, err)
		return 2
	}
	defer sv.cleanup()
	sv.dischargeAll(units, 16)
	bad := 0
	total := 0
	for _, u := range units {
		if u.Err != "" {
			fmt.Printf("ENGINE %s: %s\n", u.Block.QualName(), u.Err)
			bad++
		}
		obls := u.Ctx.obls
		sort.SliceStable(obls, func(i, j int) bool { return obls[i].Name < obls[j].Name })
		for _, o := range obls {
			total++
			okStatus := o.Status == "PROVED" || o.Status == "COVERED"
			if !okStatus {
				bad++
			}
			if *verbose || !okStatus {
				fmt.Printf("%-9s %-70s %-10s %.2fs  %s:%d  %s\n", o.Status, o.Name, o.Backend, o.SolverS, shortPos(o.Pos.Filename), o.Pos.Line, o.Text)
				if o.Status == "REFUTED" {
					var ks []string
					for k := range o.Model {
						ks = append(ks, k)
					}
					sort.Strings(ks)
					for _, k := range ks {
						fmt.Printf("            %s = %s\n", k, o.Model[k])
					}
				}
				if !okStatus && *dump != "" {
					os.MkdirAll(*dump, 0o755)
					os.WriteFile(*dump+"/"+smtSym(o.Name)+".smt2", []byte(u.Ctx.query(o, true)), 0o644)
				}
			}
		}
	}
	fmt.Printf("%d obligations, %d not discharged, %.1fs\n", total, bad, time.Since(t0).Seconds())
	if bad > 0 {
		return 1
	}
	return 0
}

func contains(xs []string, x string) bool {
	for _, y := range xs {
		if y == x {
			return true
		}
	}
	return false
}
