package main

import (
	"fmt"
	"os"
)

func main() {
	if len(os.Args) < 2 {
		fmt.Fprintln(os.Stderr, "usage: govc check|dump ...")
		os.Exit(2)
	}
	switch os.Args[1] {
	case "check":
		os.Exit(cmdCheck(os.Args[2:]))
	default:
		fmt.Fprintln(os.Stderr, "unknown command")
		os.Exit(2)
	}
}

func contains(xs []string, x string) bool {
	for _, y := range xs {
		if y == x {
			return true
		}
	}
	return false
}
