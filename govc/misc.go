package main

// Maps, range iteration, strings, models of standard-library functions.

import (
	"os"
	"fmt"
	"go/constant"
	"go/types"
	"strings"

	"golang.org/x/tools/go/ssa"
)

// ---- maps ----

func (c *Ctx) mapInit(st *State, t types.Type, r Term) {
	k := mapKey(t)
	ps := mapPresentSort(t)
	h := c.heapGet(st, k+"#p", ps)
	ks := mapKeySort(t)
	empty := Term{fmt.Sprintf("((as const %s) false)", ArrSort(ks, SBool)), ArrSort(ks, SBool)}
	c.setHeap(st, k+"#p", c.define("heap", Store(h, r, empty)))
	c.heapGet(st, k, mapSort(t))
}

func singleLeaf(t types.Type) bool { return len(layout(t)) == 1 }

func (f *Frame) mapKeyTerm(t types.Type, key []Term) (Term, bool) {
	m := t.Underlying().(*types.Map)
	if !singleLeaf(m.Key()) {
		return Term{}, false
	}
	return key[0], true
}

func (f *Frame) execLookup(in *ssa.Lookup, st *State) {
	c := f.ctx
	x := f.get(in.X)
	idx := f.get(in.Index)
	if b, ok := in.X.Type().Underlying().(*types.Basic); ok && b.Info()&types.IsString != 0 {
		f.check(st, "bounds", in.Pos(), "string index in range", And(Ge(idx[0], IntLit(0)), Lt(idx[0], app(SInt, "slen", x[0]))))
		f.set(in, []Term{app(SInt, "sat", x[0], idx[0])})
		return
	}
	mt := in.X.Type()
	m := mt.Underlying().(*types.Map)
	vt := m.Elem()
	var val []Term
	var present Term
	if kt, ok := f.mapKeyTerm(mt, idx); ok {
		k := mapKey(mt)
		hp := c.heapGet(st, k+"#p", mapPresentSort(mt))
		present = And(Not(Eq(x[0], IntLit(0))), Select(Select(hp, x[0]), kt))
		if singleLeaf(vt) {
			hv := c.heapGet(st, k, mapSort(mt))
			v := c.define("mv", Select(Select(hv, x[0]), kt))
			z := zeroLeaves(vt)
			val = []Term{c.define("mv", Ite(present, v, z[0]))}
			c.assumeFact(st, typeInv(vt, val))
		} else {
			val = c.freshLeaves("mapval", vt)
			c.assumeFact(st, typeInv(vt, val))
			z := zeroLeaves(vt)
			var eqs []Term
			for i := range val {
				eqs = append(eqs, Eq(val[i], z[i]))
			}
			st.assume(c, Implies(Not(present), And(eqs...)))
		}
	} else {
		present = c.fresh("mappresent", SBool)
		val = c.freshLeaves("mapval", vt)
		c.assumeFact(st, typeInv(vt, val))
	}
	if in.CommaOk {
		f.set(in, append(append([]Term{}, val...), present))
	} else {
		f.set(in, val)
	}
}

func (f *Frame) execMapUpdate(in *ssa.MapUpdate, st *State) {
	c := f.ctx
	x := f.get(in.Map)
	f.check(st, "nil", in.Pos(), "assignment to entry in nil map", Not(Eq(x[0], IntLit(0))))
	if f.spec {
		c.unsupported(f, "map update in specification code")
	}
	mt := in.Map.Type()
	m := mt.Underlying().(*types.Map)
	k := mapKey(mt)
	key := f.get(in.Key)
	val := f.get(in.Value)
	if kt, ok := f.mapKeyTerm(mt, key); ok {
		hp := c.heapGet(st, k+"#p", mapPresentSort(mt))
		c.setHeap(st, k+"#p", c.define("heap", Store(hp, x[0], Store(Select(hp, x[0]), kt, TTrue))))
		hv := c.heapGet(st, k, mapSort(mt))
		if singleLeaf(m.Elem()) {
			c.setHeap(st, k, c.define("heap", Store(hv, x[0], Store(Select(hv, x[0]), kt, val[0]))))
		} else {
			c.setHeap(st, k, c.fresh("mapheap", hv.Sort))
		}
	} else {
		hp := c.heapGet(st, k+"#p", mapPresentSort(mt))
		c.setHeap(st, k+"#p", c.fresh("mapheap", hp.Sort))
		hv := c.heapGet(st, k, mapSort(mt))
		c.setHeap(st, k, c.fresh("mapheap", hv.Sort))
	}
}

func (f *Frame) mapDelete(mt types.Type, m Term, key []Term, st *State) {
	c := f.ctx
	k := mapKey(mt)
	hp := c.heapGet(st, k+"#p", mapPresentSort(mt))
	if kt, ok := f.mapKeyTerm(mt, key); ok {
		c.setHeap(st, k+"#p", c.define("heap", Store(hp, m, Store(Select(hp, m), kt, TFalse))))
	} else {
		c.setHeap(st, k+"#p", c.fresh("mapheap", hp.Sort))
	}
}

// ---- range over strings and maps (slices are lowered to index loops by go/ssa) ----

type rangeIter struct {
	x   []Term
	typ types.Type
}

func (f *Frame) execRange(in *ssa.Range, st *State) {
	c := f.ctx
	f.vals[in] = []Term{c.fresh("iter", SInt)}
	it := &rangeIter{x: f.get(in.X), typ: in.X.Type()}
	c.eng.iters[f.vals[in][0].S] = it
	// ghost: the set of keys of this map visited by the iteration starts empty
	if mt, isMap := in.X.Type().Underlying().(*types.Map); isMap && singleLeaf(mt.Key()) {
		k := mapKey(in.X.Type()) + "#visited"
		srt := mapPresentSort(in.X.Type())
		c.eng.keySorts[k] = srt
		hv := c.heapGet(st, k, srt)
		empty := c.fresh("novisited", elemSort(srt))
		c.n++
		q := Term{fmt.Sprintf("vk!%d", c.n), mapKeySort(in.X.Type())}
		c.assertDef(empty, Forall([]Term{q}, Not(Select(empty, q)), []Term{Select(empty, q)}))
		c.setHeap(st, k, c.define("heap", Store(hv, it.x[0], empty)))
	}
}

func (f *Frame) execNext(in *ssa.Next, st *State) {
	c := f.ctx
	it := c.eng.iters[f.get(in.Iter)[0].S]
	tup := in.Type().(*types.Tuple)
	ok := c.fresh("next_ok", SBool)
	res := []Term{ok}
	if in.IsString {
		idx := c.fresh("next_idx", SInt)
		r := c.fresh("next_rune", SInt)
		if it != nil {
			st.assume(c, Implies(ok, And(Ge(idx, IntLit(0)), Lt(idx, app(SInt, "slen", it.x[0])))))
			// ASCII bytes decode to themselves
			b := app(SInt, "sat", it.x[0], idx)
			st.assume(c, Implies(And(ok, Lt(b, IntLit(128))), Eq(r, b)))
			st.assume(c, Implies(And(ok, Ge(b, IntLit(128))), Ge(r, IntLit(128))))
		}
		st.assume(c, And(Ge(r, IntLit(0)), Le(r, IntLit(1114111))))
		res = append(res, idx, r)
		f.set(in, res)
		return
	}
	// map: nondeterministic present key
	kt := tup.At(1).Type()
	vt := tup.At(2).Type()
	key := c.freshLeaves("next_key", kt)
	val := c.freshLeaves("next_val", vt)
	c.assumeFact(st, typeInv(kt, key))
	c.assumeFact(st, typeInv(vt, val))
	if it != nil {
		mt := it.typ
		if k1, ok1 := f.mapKeyTerm(mt, key); ok1 && len(key) == 1 {
			k := mapKey(mt)
			hp := c.heapGet(st, k+"#p", mapPresentSort(mt))
			st.assume(c, Implies(ok, Select(Select(hp, it.x[0]), k1)))
			// ghost visited set: a key is yielded once, and the iteration ends
			// only when every present key has been yielded (map not modified
			// during the iteration is the caller's business: the present set
			// is read at each step)
			vk := k + "#visited"
			c.eng.keySorts[vk] = mapPresentSort(mt)
			hvis := c.heapGet(st, vk, mapPresentSort(mt))
			vis := Select(hvis, it.x[0])
			st.assume(c, Implies(ok, Not(Select(vis, k1))))
			c.n++
			q := Term{fmt.Sprintf("vk!%d", c.n), mapKeySort(mt)}
			pres := Select(hp, it.x[0])
			st.assume(c, Implies(Not(ok), Forall([]Term{q}, Implies(Select(pres, q), Select(vis, q)), []Term{Select(pres, q)})))
			c.setHeap(st, vk, c.define("heap", Store(hvis, it.x[0], Store(vis, k1, Or(ok, Select(vis, k1))))))
			m := mt.Underlying().(*types.Map)
			if singleLeaf(m.Elem()) && len(val) == 1 {
				hv := c.heapGet(st, k, mapSort(mt))
				st.assume(c, Implies(ok, Eq(val[0], Select(Select(hv, it.x[0]), k1))))
			}
		}
	}
	res = append(res, key...)
	res = append(res, val...)
	f.set(in, res)
}

// ---- strings ----

func (c *Ctx) strLen(s Term) Term { return app(SInt, "slen", s) }

func (c *Ctx) strEq(a, b Term) Term {
	if a.S == b.S {
		return TTrue
	}
	// there is exactly one empty string
	if a.S == "str_empty" {
		return Eq(c.strLen(b), IntLit(0))
	}
	if b.S == "str_empty" {
		return Eq(c.strLen(a), IntLit(0))
	}
	eq := Eq(a, b)
	// extensionality instance for this pair (skolemised difference index)
	key := "ext|" + a.S + "|" + b.S
	if !c.unfolded[key] && !c.unfolded["ext|"+b.S+"|"+a.S] {
		c.unfolded[key] = true
		if !c.declared["sdiff"] {
			c.declared["sdiff"] = true
			c.emit("(declare-fun sdiff (Str Str) Int)")
		}
		d := app(SInt, "sdiff", a, b)
		fact := Or(eq, Not(Eq(c.strLen(a), c.strLen(b))), And(Ge(d, IntLit(0)), Lt(d, c.strLen(a)), Not(Eq(app(SInt, "sat", a, d), app(SInt, "sat", b, d)))))
		c.addFactOrAssert(fact)
	}
	return eq
}

// addFactOrAssert: facts that mention bound variables must be quantified by
// the enclosing quantifier; closed facts are asserted globally.
func (c *Ctx) addFactOrAssert(t Term) {
	for _, q := range c.quantVars {
		if strings.Contains(t.S, q) {
			c.addFact(t)
			return
		}
	}
	c.assert(t)
}

func (c *Ctx) strSub(s, lo, hi Term) Term {
	if lo.S == "0" && hi.S == c.strLen(s).S {
		return s
	}
	// substring of a substring: address the original string (keeps terms canonical)
	if strings.HasPrefix(s.S, "(ssub ") {
		parts := splitTop(s.S[1 : len(s.S)-1])
		if len(parts) == 4 {
			base := Term{parts[1], SStr}
			a := Term{parts[2], SInt}
			b := Term{parts[3], SInt}
			nhi := Add(a, hi)
			if hi.S == c.strLen(s).S {
				nhi = b
			}
			return c.strSub(base, Add(a, lo), nhi)
		}
	}
	if hi.S == Add(lo, IntLit(1)).S && os.Getenv("GOVC_NOBYTESTR") == "" {
		// a one-byte substring in canonical form (the slice bounds are checked where the code slices)
		return c.byteStr(app(SInt, "sat", s, lo))
	}
	r := app(SStr, "ssub", s, lo, hi)
	key := "sub|" + r.S
	if !c.unfolded[key] {
		c.unfolded[key] = true
		c.n++
		i := Term{fmt.Sprintf("i!%d", c.n), SInt}
		valid := And(Le(IntLit(0), lo), Le(lo, hi), Le(hi, c.strLen(s)))
		f1 := Implies(valid, Eq(c.strLen(r), Sub(hi, lo)))
		f2 := Implies(valid, Forall([]Term{i}, Implies(And(Ge(i, IntLit(0)), Lt(i, Sub(hi, lo))), Eq(app(SInt, "sat", r, i), app(SInt, "sat", s, Add(lo, i)))), []Term{app(SInt, "sat", r, i)}))
		c.addFactOrAssert(f1)
		c.addFactOrAssert(f2)
		// full slice is the identity
		c.addFactOrAssert(Implies(And(Eq(lo, IntLit(0)), Eq(hi, c.strLen(s))), Eq(r, s)))
		// empty slice is the empty string
		c.addFactOrAssert(Implies(And(valid, Eq(lo, hi)), Eq(r, Term{"str_empty", SStr})))
	}
	return r
}

func (c *Ctx) strConcat(a, b Term) Term {
	if a.S == "str_empty" {
		return b
	}
	if b.S == "str_empty" {
		return a
	}
	r := app(SStr, "sconcat", a, b)
	key := "cat|" + r.S
	if !c.unfolded[key] {
		c.unfolded[key] = true
		c.n++
		i := Term{fmt.Sprintf("i!%d", c.n), SInt}
		la := c.strLen(a)
		c.addFactOrAssert(Eq(c.strLen(r), Add(la, c.strLen(b))))
		c.addFactOrAssert(Forall([]Term{i}, Eq(app(SInt, "sat", r, i), Ite(Lt(i, la), app(SInt, "sat", a, i), app(SInt, "sat", b, Sub(i, la)))), []Term{app(SInt, "sat", r, i)}))
	}
	return r
}

// bytesOfString: []byte(s) — a fresh backing array holding the bytes of s.
func (c *Ctx) bytesOfString(st *State, s Term, elem types.Type) []Term {
	r := c.allocRef(st)
	n := c.strLen(s)
	arr := c.fresh("bytes", ArrSort(SInt, SInt))
	c.n++
	i := Term{fmt.Sprintf("i!%d", c.n), SInt}
	c.addFactOrAssert(Forall([]Term{i}, Eq(Select(arr, i), Ite(And(Ge(i, IntLit(0)), Lt(i, n)), app(SInt, "sat", s, i), IntLit(0))), []Term{Select(arr, i)}))
	c.setArrContents(st, elem, 0, r, arr)
	// an empty string converts to an empty non-nil slice
	return []Term{r, IntLit(0), n, n}
}

// stringOfBytes: string(b).
func (c *Ctx) stringOfBytes(st *State, b []Term, elem types.Type) Term {
	r := c.fresh("str", SStr)
	arr := c.arrContents(st, elem, 0, b[0])
	arr = c.define("sb", arr)
	c.n++
	i := Term{fmt.Sprintf("i!%d", c.n), SInt}
	st.assume(c, Eq(c.strLen(r), b[2]))
	st.assume(c, Forall([]Term{i}, Implies(And(Ge(i, IntLit(0)), Lt(i, b[2])), Eq(app(SInt, "sat", r, i), Select(arr, Add(b[1], i)))), []Term{app(SInt, "sat", r, i)}))
	return r
}

// ---- models of standard library functions ----

func (f *Frame) stdModel(in ssa.Instruction, callee *ssa.Function, cc *ssa.CallCommon, args [][]Term, st *State) ([]Term, bool) {
	c := f.ctx
	name := callee.String()
	switch name {
	case "(*sync.Mutex).Lock", "(*sync.Mutex).Unlock", "(*sync.RWMutex).Lock", "(*sync.RWMutex).Unlock", "(*sync.RWMutex).RLock", "(*sync.RWMutex).RUnlock":
		c.note("assumed", "mutex operations are no-ops: contracts of lock-protected code hold only if the lock discipline excludes interference")
		return nil, true
	case "(*strings.Builder).WriteByte", "(*strings.Builder).WriteString", "(*strings.Builder).WriteRune", "(*strings.Builder).Write", "(*strings.Builder).Reset":
		c.note("assumed", "assumed contract: strings.Builder accumulates exactly the bytes written to it (ghost content per builder); its write methods never fail")
		f.callsiteObligations(in, "Builder."+callee.Name(), "strings.Builder."+callee.Name(), nil, args, st)
		g := c.heapGet(st, ghostBuilder, ArrSort(SInt, SStr))
		cur := Select(g, args[0][0])
		var nv Term
		res := f.freshResults(cc, st, callee.Name())
		switch callee.Name() {
		case "WriteByte":
			nv = c.strConcat(cur, c.byteStr(args[1][0]))
			st.assume(c, Eq(res[0], IntLit(0)))
		case "WriteString":
			nv = c.strConcat(cur, args[1][0])
			st.assume(c, And(Eq(res[0], c.strLen(args[1][0])), Eq(res[1], IntLit(0))))
		case "Reset":
			nv = Term{"str_empty", SStr}
		default:
			// WriteRune / Write: some bytes are appended
			nv = c.strConcat(cur, c.fresh("sbw", SStr))
			st.assume(c, Eq(res[len(res)-2], IntLit(0)))
		}
		c.setHeap(st, ghostBuilder, c.define("ghost", Store(g, args[0][0], nv)))
		f.recordCall(st, cc, res, "Builder."+callee.Name())
		return res, true
	case "(*strings.Builder).String":
		g := c.heapGet(st, ghostBuilder, ArrSort(SInt, SStr))
		return []Term{Select(g, args[0][0])}, true
	case "(*strings.Builder).Len":
		g := c.heapGet(st, ghostBuilder, ArrSort(SInt, SStr))
		return []Term{c.strLen(Select(g, args[0][0]))}, true
	case "(*strings.Builder).Grow":
		f.callsiteObligations(in, "Builder.Grow", "strings.Builder.Grow", nil, args, st)
		return nil, true
	case "(*bufio.Reader).ReadByte":
		c.note("assumed", "assumed contract: bufio.Reader.UnreadByte succeeds when the most recent reader operation was a successful ReadByte (ghost flag canUnread)")
		res := f.freshResults(cc, st, "ReadByte")
		g := c.heapGet(st, ghostCanUnread, ArrSort(SInt, SBool))
		c.setHeap(st, ghostCanUnread, c.define("ghost", Store(g, args[0][0], Eq(res[1], IntLit(0)))))
		f.recordCall(st, cc, res, "Reader.ReadByte")
		return res, true
	case "(*bufio.Reader).UnreadByte":
		res := f.freshResults(cc, st, "UnreadByte")
		g := c.heapGet(st, ghostCanUnread, ArrSort(SInt, SBool))
		st.assume(c, Implies(Select(g, args[0][0]), Eq(res[0], IntLit(0))))
		c.setHeap(st, ghostCanUnread, c.define("ghost", Store(g, args[0][0], TFalse)))
		return res, true
	case "(*bufio.Reader).Peek", "(*bufio.Reader).Read", "(*bufio.Reader).Discard", "(*bufio.Reader).Reset", "(*bufio.Reader).ReadString", "(*bufio.Reader).ReadBytes", "(*bufio.Reader).ReadLine", "(*bufio.Reader).ReadRune", "(*bufio.Reader).WriteTo", "(*bufio.Reader).ReadSlice":
		g := c.heapGet(st, ghostCanUnread, ArrSort(SInt, SBool))
		c.setHeap(st, ghostCanUnread, c.define("ghost", Store(g, args[0][0], TFalse)))
		return nil, false // fall through to the generic treatment of the call
	case "errors.As", "errors.Is":
		// generic treatment of the call (the target may be written), plus: a nil error matches nothing
		c.note("assumed", "assumed contract: errors.As / errors.Is report false for a nil error")
		res := f.opaqueCall(in, cc, callee, args, st)
		st.assume(c, Implies(Eq(args[0][0], IntLit(0)), Not(res[0])))
		if name == "errors.As" && len(cc.Args) == 2 {
			// an error whose own dynamic type is the target's type matches at once
			tt := cc.Args[1].Type()
			if mi, ok := cc.Args[1].(*ssa.MakeInterface); ok {
				tt = mi.X.Type() // the target is passed as `any`
			}
			if pt, ok := tt.Underlying().(*types.Pointer); ok && !types.IsInterface(pt.Elem()) {
				c.note("assumed", "assumed contract: errors.As(err, &t) is true when err's dynamic type is t's type")
				st.assume(c, Implies(Eq(args[0][0], c.typeID(pt.Elem())), res[0]))
			}
		}
		return res, true
	case "unicode.IsControl":
		c.note("assumed", "assumed contract: unicode.IsControl(r) for r < 256 <=> r < 0x20 || 0x7f <= r < 0xa0")
		r := args[0][0]
		if !c.declared["ext_isControl"] {
			c.declared["ext_isControl"] = true
			c.emit("(declare-fun ext_isControl (Int) Bool)")
		}
		return []Term{Ite(And(Ge(r, IntLit(0)), Lt(r, IntLit(256))), Or(Lt(r, IntLit(32)), And(Ge(r, IntLit(127)), Lt(r, IntLit(160)))), app(SBool, "ext_isControl", r))}, true
	case "strings.ToUpper", "strings.ToLower", "strings.TrimSpace":
		// a deterministic function of the argument's contents; nothing else is assumed
		c.note("assumed", "assumed contract: "+name+" is a function of its argument (result otherwise unconstrained)")
		fn := "ext_" + smtSym(name)
		if !c.declared[fn] {
			c.declared[fn] = true
			c.emit(fmt.Sprintf("(declare-fun %s (Str) Str)", fn))
		}
		return []Term{app(SStr, fn, args[0][0])}, true
	case "strings.Contains":
		c.note("assumed", "assumed contract: strings.Contains is a function of its arguments (result otherwise unconstrained)")
		if !c.declared["ext_strcontains"] {
			c.declared["ext_strcontains"] = true
			c.emit("(declare-fun ext_strcontains (Str Str) Bool)")
		}
		return []Term{app(SBool, "ext_strcontains", args[0][0], args[1][0])}, true
	case "strings.TrimRight", "strings.TrimLeft", "strings.Trim":
		// deterministic functions of their two string arguments; nothing else is assumed
		c.note("assumed", "assumed contract: "+name+" is a function of its arguments (result otherwise unconstrained)")
		fn := "ext_" + smtSym(name)
		if !c.declared[fn] {
			c.declared[fn] = true
			c.emit(fmt.Sprintf("(declare-fun %s (Str Str) Str)", fn))
		}
		return []Term{app(SStr, fn, args[0][0], args[1][0])}, true
	case "unicode/utf8.ValidString":
		c.note("assumed", "assumed contract: utf8.ValidString is a function of its argument")
		if !c.declared["ext_utf8valid"] {
			c.declared["ext_utf8valid"] = true
			c.emit("(declare-fun ext_utf8valid (Str) Bool)")
		}
		return []Term{app(SBool, "ext_utf8valid", args[0][0])}, true
	case "strings.EqualFold":
		c.note("assumed", "assumed contract: strings.EqualFold(s,t) is a reflexive function of its arguments")
		if !c.declared["ext_equalfold"] {
			c.declared["ext_equalfold"] = true
			c.emit("(declare-fun ext_equalfold (Str Str) Bool)")
		}
		r := app(SBool, "ext_equalfold", args[0][0], args[1][0])
		st.assume(c, Implies(Eq(args[0][0], args[1][0]), r))
		return []Term{r}, true
	case "(*golang.org/x/text/encoding.Encoder).String", "(*golang.org/x/text/encoding.Decoder).String":
		// the module uses a single text encoding (modified UTF-7) and a fresh
		// transformer object per call: the result is a function of the input
		c.note("assumed", "assumed contract: "+name+" is a function of its string argument (one text encoding in the module, stateless between calls)")
		fn := "ext_textenc"
		if strings.Contains(name, "Decoder") {
			fn = "ext_textdec"
		}
		if !c.declared[fn] {
			c.declared[fn] = true
			c.emit(fmt.Sprintf("(declare-fun %s (Str) Str)", fn))
			c.emit(fmt.Sprintf("(declare-fun %s_errtid (Str) Int)", fn))
			c.emit(fmt.Sprintf("(declare-fun %s_errval (Str) Int)", fn))
		}
		return []Term{app(SStr, fn, args[1][0]), app(SInt, fn+"_errtid", args[1][0]), app(SInt, fn+"_errval", args[1][0])}, true
	case "strings.HasPrefix":
		c.note("assumed", "assumed contract: strings.HasPrefix(s,p) <=> p is empty, or both are non-empty with equal first bytes and HasPrefix(s[1:], p[1:]) (recursive characterisation); HasPrefix(s,p) && len(s)==len(p) <=> s == p")
		return []Term{c.strPrefix(args[0][0], args[1][0], 0)}, true
	case "strings.HasSuffix":
		c.note("assumed", "assumed contract: strings.HasSuffix(s,p) is a function of (s,p); true for empty p; implies len(p) <= len(s) and, for a constant p, that the last bytes of s are p's")
		if !c.declared["ssuffix"] {
			c.declared["ssuffix"] = true
			c.emit("(declare-fun ssuffix (Str Str) Bool)")
		}
		sT, pT := args[0][0], args[1][0]
		r := app(SBool, "ssuffix", sT, pT)
		st.assume(c, Implies(Eq(c.strLen(pT), IntLit(0)), r))
		st.assume(c, Implies(r, Le(c.strLen(pT), c.strLen(sT))))
		if k, ok := cc.Args[1].(*ssa.Const); ok && k.Value != nil {
			// a constant suffix: the last bytes of s are its bytes
			suf := constant.StringVal(k.Value)
			for j := 0; j < len(suf) && j < 8; j++ {
				idx := Sub(c.strLen(sT), IntLit(int64(len(suf)-j)))
				st.assume(c, Implies(r, Eq(app(SInt, "sat", sT, idx), IntLit(int64(suf[j])))))
			}
		}
		return []Term{r}, true
	case "strings.TrimPrefix":
		c.note("assumed", "assumed contract: strings.TrimPrefix(s,p) == s[len(p):] if HasPrefix(s,p), else s")
		sT, pT := args[0][0], args[1][0]
		hp := c.strPrefix(sT, pT, 0)
		return []Term{Ite(hp, c.strSub(sT, c.strLen(pT), c.strLen(sT)), sT)}, true
	case "strings.IndexRune", "strings.IndexByte", "strings.Index", "strings.LastIndex", "strings.LastIndexByte":
		c.note("assumed", "assumed contract: strings.Index*/LastIndex*(s, x) returns -1 or an index below len(s); for IndexByte/LastIndexByte a found index holds the byte")
		r := c.fresh("index", SInt)
		st.assume(c, And(Ge(r, IntLit(-1)), Lt(r, Ite(Gt(c.strLen(args[0][0]), IntLit(0)), c.strLen(args[0][0]), IntLit(0)))))
		if callee.Name() == "IndexByte" || callee.Name() == "LastIndexByte" {
			// a found index holds the byte looked for
			st.assume(c, Implies(Ge(r, IntLit(0)), Eq(app(SInt, "sat", args[0][0], r), args[1][0])))
		}
		return []Term{r}, true
	case "strings.IndexAny":
		if k, ok := cc.Args[1].(*ssa.Const); ok && k.Value != nil {
			chars := constant.StringVal(k.Value)
			c.note("assumed", "assumed contract: strings.IndexAny(s, chars) for ASCII chars: the first index holding one of them, or -1")
			sT := args[0][0]
			r := c.fresh("indexany", SInt)
			isOne := func(idx Term) Term {
				var ds []Term
				for i := 0; i < len(chars); i++ {
					ds = append(ds, Eq(app(SInt, "sat", sT, idx), IntLit(int64(chars[i]))))
				}
				return Or(ds...)
			}
			c.n++
			kq := Term{fmt.Sprintf("k!%d", c.n), SInt}
			st.assume(c, And(Ge(r, IntLit(-1)), Lt(r, c.strLen(sT))))
			st.assume(c, Implies(Ge(r, IntLit(0)), isOne(r)))
			bound := Ite(Ge(r, IntLit(0)), r, c.strLen(sT))
			st.assume(c, Forall([]Term{kq}, Implies(And(Ge(kq, IntLit(0)), Lt(kq, bound)), Not(isOne(kq))), []Term{app(SInt, "sat", sT, kq)}))
			return []Term{r}, true
		}
	case "strconv.FormatUint", "strconv.FormatInt", "strconv.Itoa":
		base := IntLit(10)
		if name != "strconv.Itoa" {
			base = args[1][0]
		}
		if base.S == "10" {
			c.note("assumed", "assumed contract: strconv.FormatUint/FormatInt/Itoa(x, 10) for x >= 0 is the decimal numeral decstr(x): digits only, no sign, and ParseUint/ParseInt read it back as x")
			x := args[0][0]
			r := c.decstr(x)
			if name == "strconv.FormatUint" {
				return []Term{r}, true
			}
			neg := c.fresh("fmtneg", SStr)
			return []Term{Ite(Ge(x, IntLit(0)), r, neg)}, true
		}
	case "strconv.ParseUint", "strconv.ParseInt", "strconv.Atoi":
		var base, bits Term
		if name == "strconv.Atoi" {
			base, bits = IntLit(10), IntLit(64)
		} else {
			base, bits = args[1][0], args[2][0]
		}
		bc, okb := bits.intConst()
		if base.S == "10" && okb && bc.IsInt64() && bc.Int64() > 0 && bc.Int64() <= 64 {
			c.note("assumed", "assumed contract: strconv.ParseUint/ParseInt/Atoi(s, 10, bits) on a string of decimal digits succeeds exactly when the value fits (unsigned: < 2^bits, signed: < 2^(bits-1)) and returns that value; ParseUint fails on anything that is not all digits")
			sT := args[0][0]
			res := f.freshResults(cc, st, callee.Name())
			v := res[0]
			ok := Eq(res[1], IntLit(0))
			dv := c.decval(sT)
			dg := c.sdigits(sT)
			nb := uint(bc.Int64())
			if name == "strconv.ParseUint" {
				st.assume(c, Eq(ok, And(dg, Lt(dv, BigLit(pow2(nb))))))
				st.assume(c, Implies(ok, Eq(v, dv)))
			} else {
				st.assume(c, Implies(dg, Eq(ok, Lt(dv, BigLit(pow2(nb-1))))))
				st.assume(c, Implies(And(dg, ok), Eq(v, dv)))
			}
			return res, true
		}
	case "errors.New", "fmt.Errorf":
		// a non-nil error value
		tid := c.fresh("errtid", SInt)
		val := c.fresh("errval", SInt)
		st.assume(c, Gt(tid, IntLit(0)))
		st.assume(c, Gt(tid, IntLit(500000)))
		return []Term{tid, val}, true
	case "fmt.Sprintf", "fmt.Sprint", "fmt.Sprintln":
		return []Term{c.fresh("sprintf", SStr)}, true
	case "(time.Time).Format":
		// a deterministic function of the time value (instant and location) and the layout
		c.note("assumed", "assumed contract: time.Time.Format is a function of the time value and the layout (result otherwise unconstrained)")
		if !c.declared["ext_timeformat"] {
			c.declared["ext_timeformat"] = true
			c.emit("(declare-fun ext_timeformat (Int Str) Str)")
		}
		return []Term{app(SStr, "ext_timeformat", args[0][0], args[1][0])}, true
	case "(time.Time).IsZero":
		c.note("assumed", "assumed contract: time.Time is an opaque instant; IsZero <=> zero value")
		return []Term{Eq(args[0][0], IntLit(0))}, true
	case "(time.Time).Before":
		c.note("assumed", "assumed contract: time.Time Before/After are a strict total order on instants (monotonic clock readings and locations ignored)")
		return []Term{Lt(c.timeInstant(args[0][0]), c.timeInstant(args[1][0]))}, true
	case "(time.Time).After":
		c.note("assumed", "assumed contract: time.Time Before/After are a strict total order on instants (monotonic clock readings and locations ignored)")
		return []Term{Gt(c.timeInstant(args[0][0]), c.timeInstant(args[1][0]))}, true
	case "(time.Time).Equal":
		return []Term{Eq(c.timeInstant(args[0][0]), c.timeInstant(args[1][0]))}, true
	}
	return nil, false
}

func (c *Ctx) timeInstant(t Term) Term {
	if !c.declared["time_instant"] {
		c.declared["time_instant"] = true
		c.emit("(declare-fun time_instant (Int) Int)")
	}
	return app(SInt, "time_instant", t)
}

const ghostCanUnread = "G|bufio.canUnread"
const ghostBuilder = "G|strings.Builder.content"

// byteStr: the one-byte string holding b.
func (c *Ctx) byteStr(b Term) Term {
	if !c.declared["bytestr"] {
		c.declared["bytestr"] = true
		c.emit("(declare-fun bytestr (Int) Str)")
		c.emit("(assert (forall ((b Int)) (! (and (= (slen (bytestr b)) 1) (=> (and (<= 0 b) (<= b 255)) (= (sat (bytestr b) 0) b))) :pattern ((bytestr b)))))")
	}
	return app(SStr, "bytestr", b)
}

// decval / sdigits / decstr: decimal numerals as uninterpreted functions with
// their defining properties instantiated per term.
func (c *Ctx) decval(s Term) Term {
	if !c.declared["decval"] {
		c.declared["decval"] = true
		c.emit("(declare-fun decval (Str) Int)")
		c.emit("(assert (forall ((s Str)) (! (>= (decval s) 0) :pattern ((decval s)))))")
	}
	return app(SInt, "decval", s)
}

func (c *Ctx) sdigits(s Term) Term {
	if !c.declared["sdigits"] {
		c.declared["sdigits"] = true
		c.emit("(declare-fun sdigits (Str) Bool)")
	}
	r := app(SBool, "sdigits", s)
	key := "digits|" + r.S
	if !c.unfolded[key] {
		c.unfolded[key] = true
		c.n++
		i := Term{fmt.Sprintf("i!%d", c.n), SInt}
		ch := app(SInt, "sat", s, i)
		all := Forall([]Term{i}, Implies(And(Ge(i, IntLit(0)), Lt(i, c.strLen(s))), And(Ge(ch, IntLit(48)), Le(ch, IntLit(57)))), []Term{ch})
		c.addFactOrAssert(Eq(r, And(Gt(c.strLen(s), IntLit(0)), all)))
	}
	return r
}

func (c *Ctx) decstr(x Term) Term {
	if !c.declared["decstr"] {
		c.declared["decstr"] = true
		c.emit("(declare-fun decstr (Int) Str)")
	}
	r := app(SStr, "decstr", x)
	key := "decstr|" + r.S
	if !c.unfolded[key] {
		c.unfolded[key] = true
		c.addFactOrAssert(Implies(Ge(x, IntLit(0)), And(c.sdigits(r), Eq(c.decval(r), x), Ge(c.strLen(r), IntLit(1)))))
	}
	return r
}

// strPrefix: HasPrefix as an uninterpreted predicate with explicit unfolding.
func (c *Ctx) strPrefix(s, p Term, depth int) Term {
	if !c.declared["sprefix"] {
		c.declared["sprefix"] = true
		c.emit("(declare-fun sprefix (Str Str) Bool)")
	}
	r := app(SBool, "sprefix", s, p)
	key := "prefix|" + r.S
	if !c.unfolded[key] && depth < c.fuel {
		c.unfolded[key] = true
		ls, lp := c.strLen(s), c.strLen(p)
		tailS := c.strSub(s, IntLit(1), ls)
		tailP := c.strSub(p, IntLit(1), lp)
		rec := c.strPrefix(tailS, tailP, depth+1)
		def := Eq(r, Or(Eq(lp, IntLit(0)), And(Gt(ls, IntLit(0)), Gt(lp, IntLit(0)), Eq(app(SInt, "sat", s, IntLit(0)), app(SInt, "sat", p, IntLit(0))), rec)))
		c.addFactOrAssert(def)
		c.addFactOrAssert(Implies(r, Le(lp, ls)))
		// a prefix of equal length is the string itself
		c.addFactOrAssert(Eq(And(r, Eq(ls, lp)), Eq(s, p)))
	}
	return r
}
