package main

// Replay of counterexamples on the real code: a Go test is generated from the
// solver model (inputs of the function under verification), injected into the
// package with `go test -overlay` (nothing is written to /repo), and the
// violated clause is evaluated by the same synthetic clause function the
// verifier translated.

import (
	"bytes"
	"context"
	"encoding/json"
	"fmt"
	"go/ast"
	"go/printer"
	"go/types"
	"os"
	"os/exec"
	"path/filepath"
	"sort"
	"strconv"
	"strings"
	"time"

	"golang.org/x/tools/go/ssa"
)

type replayResult struct {
	Verdict string // confirmed | not-confirmed | not-replayable
	Detail  string
	Source  string
	Output  string
}

// inputTerm: a term whose value is requested from the solver to rebuild an input.
type inputTerm struct {
	key  string
	term string
}

const maxReplayElems = 6

// replayPlan walks the parameter types and lists the terms needed.
type replayPlan struct {
	c      *Ctx
	terms  []inputTerm
	seen   map[string]bool
	reason string
	decls  map[string]Sort // initial-heap constants the terms mention
}

func (p *replayPlan) h0(key string, leaf Leaf) string {
	name := "H0_" + smtSym(key)
	if p.decls == nil {
		p.decls = map[string]Sort{}
	}
	p.decls[name] = p.c.heapSort(key, leaf)
	return name
}

func (p *replayPlan) add(key, term string) {
	if !p.seen[key] {
		p.seen[key] = true
		p.terms = append(p.terms, inputTerm{key, term})
	}
}

func h0(key string) string { return "H0_" + smtSym(key) }

// planValue registers the terms describing a value of type t whose leaves are
// the given SMT terms (as strings).
func (p *replayPlan) planValue(path string, t types.Type, leaves []string, depth int) {
	if depth > 3 {
		return // deeper structure keeps zero values (nil pointers / nil slices) in the replay
	}
	lay := layout(t)
	if len(lay) != len(leaves) {
		p.reason = "layout mismatch"
		return
	}
	if opaqueNamed(t) {
		p.add(path, leaves[0])
		return
	}
	switch u := t.Underlying().(type) {
	case *types.Basic:
		p.add(path, leaves[0])
		if u.Info()&types.IsString != 0 {
			p.add(path+"#len", "(slen "+leaves[0]+")")
			for i := 0; i < 12; i++ {
				p.add(fmt.Sprintf("%s#at%d", path, i), fmt.Sprintf("(sat %s %d)", leaves[0], i))
			}
		}
	case *types.Struct:
		off := 0
		for i := 0; i < u.NumFields(); i++ {
			n := len(layout(u.Field(i).Type()))
			p.planValue(path+"."+u.Field(i).Name(), u.Field(i).Type(), leaves[off:off+n], depth)
			off += n
		}
	case *types.Slice:
		p.add(path+"#base", leaves[0])
		p.add(path+"#off", leaves[1])
		p.add(path+"#len", leaves[2])
		p.add(path+"#cap", leaves[3])
		el := u.Elem()
		elay := layout(el)
		for i := 0; i < maxReplayElems; i++ {
			var ls []string
			for k := range elay {
				ls = append(ls, fmt.Sprintf("(select (select %s %s) (+ %s %d))", p.h0(arrKey(el, k), elay[k]), leaves[0], leaves[1], i))
			}
			p.planValue(fmt.Sprintf("%s[%d]", path, i), el, ls, depth+1)
		}
	case *types.Pointer:
		p.add(path+"#ref", leaves[0])
		el := u.Elem()
		if _, ok := el.Underlying().(*types.Struct); !ok && !isSimple(el) {
			p.reason = "pointer to unsupported type " + el.String()
			return
		}
		elay := layout(el)
		var ls []string
		for k := range elay {
			ls = append(ls, fmt.Sprintf("(select %s %s)", p.h0(objKey(el, k), elay[k]), leaves[0]))
		}
		p.planValue(path+"->", el, ls, depth+1)
	case *types.Array:
		w := len(layout(u.Elem()))
		for i := int64(0); i < u.Len(); i++ {
			p.planValue(fmt.Sprintf("%s[%d]", path, i), u.Elem(), leaves[int(i)*w:int(i+1)*w], depth)
		}
	case *types.Interface, *types.Map, *types.Chan, *types.Signature:
		if strings.Contains(path, ".") {
			return // a field of such a type keeps its zero value in the replay
		}
		p.reason = "input of type " + t.String() + " cannot be rebuilt from a model"
	default:
		p.reason = "unsupported input type " + t.String()
	}
}

func isSimple(t types.Type) bool {
	switch t.Underlying().(type) {
	case *types.Basic, *types.Slice:
		return true
	}
	return false
}

// goValue renders Go source for the value at path.
type valueBuilder struct {
	vals   map[string]string
	qual   types.Qualifier
	pre    []string // statements executed before the value expression
	n      int
	ptrs   map[string]string // ref -> variable (aliasing of equal references)
	reason string
}

func (b *valueBuilder) num(key string) (int64, bool) {
	v, ok := b.vals[key]
	if !ok {
		return 0, false
	}
	v = strings.ReplaceAll(v, " ", "")
	neg := false
	if strings.HasPrefix(v, "(-") {
		neg = true
		v = strings.TrimSuffix(strings.TrimPrefix(v, "(-"), ")")
	}
	n, err := strconv.ParseInt(v, 10, 64)
	if err != nil {
		u, err2 := strconv.ParseUint(v, 10, 64)
		if err2 != nil {
			return 0, false
		}
		return int64(u), true
	}
	if neg {
		n = -n
	}
	return n, true
}

func (b *valueBuilder) expr(path string, t types.Type, depth int) string {
	ts := types.TypeString(t, b.qual)
	if opaqueNamed(t) {
		if t.String() == "time.Time" {
			n, _ := b.num(path)
			if n == 0 {
				return "time.Time{}"
			}
			return fmt.Sprintf("time.Unix(%d, 0)", n%100000)
		}
		return ts + "{}"
	}
	switch u := t.Underlying().(type) {
	case *types.Basic:
		switch {
		case u.Info()&types.IsBoolean != 0:
			if b.vals[path] == "true" {
				return ts + "(true)"
			}
			return ts + "(false)"
		case u.Info()&types.IsString != 0:
			n, ok := b.num(path + "#len")
			if !ok || n > 12 {
				n = 0
			}
			var bs []byte
			for i := int64(0); i < n; i++ {
				c, _ := b.num(fmt.Sprintf("%s#at%d", path, i))
				bs = append(bs, byte(c))
			}
			return ts + "(" + strconv.Quote(string(bs)) + ")"
		case u.Info()&types.IsInteger != 0:
			v := strings.ReplaceAll(b.vals[path], " ", "")
			if strings.HasPrefix(v, "(-") {
				v = "-" + strings.TrimSuffix(strings.TrimPrefix(v, "(-"), ")")
			}
			if v == "" {
				v = "0"
			}
			return ts + "(" + v + ")"
		}
		return "*new(" + ts + ")"
	case *types.Struct:
		var fs []string
		for i := 0; i < u.NumFields(); i++ {
			f := u.Field(i)
			if opaqueNamed(f.Type()) && f.Type().String() != "time.Time" {
				continue
			}
			fs = append(fs, f.Name()+": "+b.expr(path+"."+f.Name(), f.Type(), depth))
		}
		return ts + "{" + strings.Join(fs, ", ") + "}"
	case *types.Slice:
		base, _ := b.num(path + "#base")
		if base == 0 {
			return ts + "(nil)"
		}
		ln, _ := b.num(path + "#len")
		cp, _ := b.num(path + "#cap")
		if ln < 0 {
			ln = 0
		}
		if ln > maxReplayElems {
			b.reason = fmt.Sprintf("slice %s has %d elements in the model (more than %d)", path, ln, maxReplayElems)
			ln = maxReplayElems
		}
		if cp < ln {
			cp = ln
		}
		if cp > 64 {
			cp = ln + 2
		}
		b.n++
		v := fmt.Sprintf("s%d", b.n)
		b.pre = append(b.pre, fmt.Sprintf("%s := make(%s, %d, %d)", v, ts, ln, cp))
		for i := int64(0); i < ln; i++ {
			b.pre = append(b.pre, fmt.Sprintf("%s[%d] = %s", v, i, b.expr(fmt.Sprintf("%s[%d]", path, i), u.Elem(), depth+1)))
		}
		return v
	case *types.Pointer:
		ref, _ := b.num(path + "#ref")
		if ref == 0 {
			return "(" + ts + ")(nil)"
		}
		key := fmt.Sprintf("%s@%d", ts, ref)
		if v, ok := b.ptrs[key]; ok {
			return v
		}
		b.n++
		v := fmt.Sprintf("p%d", b.n)
		b.ptrs[key] = v
		ets := types.TypeString(u.Elem(), b.qual)
		b.pre = append(b.pre, fmt.Sprintf("%s := new(%s)", v, ets))
		inner := b.expr(path+"->", u.Elem(), depth+1)
		b.pre = append(b.pre, fmt.Sprintf("*%s = %s", v, inner))
		return v
	case *types.Array:
		var es []string
		for i := int64(0); i < u.Len(); i++ {
			es = append(es, b.expr(fmt.Sprintf("%s[%d]", path, i), u.Elem(), depth))
		}
		return ts + "{" + strings.Join(es, ", ") + "}"
	case *types.Interface, *types.Map, *types.Chan, *types.Signature:
		return "*new(" + ts + ")"
	}
	b.reason = "cannot render " + ts
	return "*new(" + ts + ")"
}

// replay tries to confirm a refuted obligation on the real code.
func (e *Engine) replay(sv *Solver, u *Unit, o *Obligation, prop string) replayResult {
	c := u.Ctx
	blk := u.Block
	fn := blk.Target
	if fn.Pkg == nil {
		return replayResult{Verdict: "not-replayable", Detail: "function has no package"}
	}
	pkg := e.ld.ByPath[fn.Pkg.Pkg.Path()]
	if pkg == nil {
		return replayResult{Verdict: "not-replayable", Detail: "package not loaded"}
	}
	imports := map[string]string{}
	qual := func(p *types.Package) string {
		if p == fn.Pkg.Pkg {
			return ""
		}
		imports[p.Path()] = p.Name()
		return p.Name()
	}
	// 1. plan the inputs
	plan := &replayPlan{c: c, seen: map[string]bool{}}
	var paramLeaves [][]string
	idx := 0
	for i, p := range fn.Params {
		n := len(layout(p.Type()))
		var ls []string
		for k := 0; k < n; k++ {
			// inputs were registered in order, skipping literal-zero offsets
			ls = append(ls, "")
		}
		_ = i
		paramLeaves = append(paramLeaves, ls)
		idx += n
	}
	// recover leaf constants from the verification frame's inputs by name
	byName := map[string]string{}
	for _, in := range c.inputs {
		byName[in.Name] = in.Const
	}
	for i, p := range fn.Params {
		pname := p.Name()
		if i < len(blk.ParamNames) {
			pname = blk.ParamNames[i]
		}
		lay := layout(p.Type())
		for k := range lay {
			nm := pname
			if len(lay) > 1 {
				nm = fmt.Sprintf("%s#%d%s", pname, k, lay[k].Role)
			}
			if cst, ok := byName[nm]; ok {
				paramLeaves[i][k] = cst
			} else {
				paramLeaves[i][k] = "0"
			}
		}
		plan.planValue("arg"+strconv.Itoa(i), p.Type(), paramLeaves[i], 0)
	}
	if plan.reason != "" {
		return replayResult{Verdict: "not-replayable", Detail: plan.reason}
	}
	// 2. ask the solver for the values (same query + get-value)
	var q string
	if o.Sliced {
		q = c.slicedQuery(o, false)
	} else {
		q = c.query(o, false)
	}
	var gv strings.Builder
	gv.WriteString("(get-value (")
	for _, t := range plan.terms {
		gv.WriteString(t.term + " ")
	}
	gv.WriteString("))\n")
	var extra strings.Builder
	for name, srt := range plan.decls {
		if !c.declared[name] {
			fmt.Fprintf(&extra, "(declare-const %s %s)\n", name, srt)
		}
	}
	q = strings.Replace(q, "(set-logic ALL)\n", "(set-logic ALL)\n(declare-sort Str0 0)\n", 1)
	// declarations must follow the sort declarations of the prelude: put them right before the final assertions
	if i := strings.LastIndex(q, "(assert "); i >= 0 {
		j := strings.LastIndex(q[:i], "(assert ")
		if j < 0 {
			j = i
		}
		q = q[:j] + extra.String() + q[j:]
	}
	// prefer small inputs: first ask for a model with short slices and strings
	base := q
	var r solveResult
	bounds := []int{1, 2, 4, -1}
	for attempt := 0; attempt < len(bounds); attempt++ {
		q = base
		if bounds[attempt] >= 0 {
			// lengths within the unfolding fuel make models of recursive ghost functions exact
			var small strings.Builder
			for _, t := range plan.terms {
				if strings.HasSuffix(t.key, "#len") {
					fmt.Fprintf(&small, "(assert (<= %s %d))\n", t.term, bounds[attempt])
				}
			}
			q = strings.Replace(q, "(check-sat)\n", small.String()+"(check-sat)\n", 1)
		}
		q = "(set-option :produce-models true)\n" + q + gv.String()
		file := sv.file(q)
		for _, sp := range solvers {
			if sp.name == o.Backend {
				r = runSolver(sp, file, min(sv.timeoutS, 15))
			}
		}
		os.Remove(file)
		if r.answer == "sat" {
			break
		}
	}
	if r.answer != "sat" {
		return replayResult{Verdict: "not-replayable", Detail: "no model with input values (" + r.answer + ")"}
	}
	vals := parseValues(r.raw, plan.terms)
	// 3. generate the test
	vb := &valueBuilder{vals: vals, qual: qual, ptrs: map[string]string{}}
	var argExprs []string
	for i, p := range fn.Params {
		argExprs = append(argExprs, vb.expr("arg"+strconv.Itoa(i), p.Type(), 0))
	}
	if vb.reason != "" {
		return replayResult{Verdict: "not-replayable", Detail: vb.reason}
	}
	src, err := e.replaySource(blk, fn, o, vb, argExprs, qual)
	if err == nil {
		var imp strings.Builder
		for path, name := range imports {
			if path == "time" || path == "fmt" || path == "os" || path == "testing" {
				continue
			}
			fmt.Fprintf(&imp, "\t%s %q\n", name, path)
		}
		src = strings.Replace(src, "import (\n", "import (\n"+imp.String(), 1)
	}
	if err != nil {
		return replayResult{Verdict: "not-replayable", Detail: err.Error()}
	}
	out, err := e.runReplay(sv, fn, src)
	res := replayResult{Source: src, Output: out}
	switch {
	case strings.Contains(out, "GOVC-REPLAY: CONFIRMED"):
		res.Verdict = "confirmed"
		for _, ln := range strings.Split(out, "\n") {
			if strings.Contains(ln, "GOVC-REPLAY:") {
				res.Detail = strings.TrimSpace(ln)
				break
			}
		}
	case strings.Contains(out, "GOVC-REPLAY:"):
		res.Verdict = "not-confirmed"
		for _, ln := range strings.Split(out, "\n") {
			if strings.Contains(ln, "GOVC-REPLAY:") {
				res.Detail = strings.TrimSpace(ln)
			}
		}
	default:
		res.Verdict = "not-replayable"
		res.Detail = "replay test did not run: " + truncate(out, 400)
		if err != nil {
			res.Detail += " (" + err.Error() + ")"
		}
	}
	return res
}

func parseValues(raw string, terms []inputTerm) map[string]string {
	m := map[string]string{}
	i := strings.Index(raw, "\nsat")
	if i >= 0 {
		raw = raw[i+4:]
	} else if strings.HasPrefix(raw, "sat") {
		raw = raw[3:]
	}
	raw = strings.TrimSpace(raw)
	if len(raw) < 2 || raw[0] != '(' {
		return m
	}
	parts := splitTop(raw[1 : len(raw)-1])
	for k, p := range parts {
		p = strings.TrimSpace(p)
		if k >= len(terms) || len(p) < 2 {
			continue
		}
		kv := splitTop(p[1 : len(p)-1])
		if len(kv) == 2 {
			m[terms[k].key] = kv[1]
		}
	}
	return m
}

// oldSites finds old(...) occurrences in a synthetic post function; returns
// nil, false when one sits inside a quantifier.
func oldSites(pkgSyntax []*ast.File, info *types.Info, name string, qual types.Qualifier) (exprs []ast.Expr, tys []string, ok bool) {
	for _, f := range pkgSyntax {
		for _, d := range f.Decls {
			fd, isF := d.(*ast.FuncDecl)
			if !isF || fd.Name.Name != name {
				continue
			}
			ok = true
			var walk func(n ast.Node, inLit bool)
			walk = func(n ast.Node, inLit bool) {
				ast.Inspect(n, func(m ast.Node) bool {
					if fl, isLit := m.(*ast.FuncLit); isLit && m != n {
						walk(fl.Body, true)
						return false
					}
					if ce, isCall := m.(*ast.CallExpr); isCall {
						if id, isId := ce.Fun.(*ast.Ident); isId && id.Name == "__old" && len(ce.Args) == 2 {
							if inLit {
								ok = false
							}
							exprs = append(exprs, ce)
							tys = append(tys, types.TypeString(info.TypeOf(ce.Args[1]), qual))
						}
					}
					return true
				})
			}
			walk(fd.Body, false)
			return
		}
	}
	return nil, nil, false
}

func (e *Engine) replaySource(blk *Block, fn *ssa.Function, o *Obligation, vb *valueBuilder, argExprs []string, qual types.Qualifier) (string, error) {
	var b strings.Builder
	pkgName := fn.Pkg.Pkg.Name()
	fmt.Fprintf(&b, "package %s\n\nimport (\n\t\"fmt\"\n\t\"os\"\n\t\"testing\"\n\t\"time\"\n)\n\nvar _ = time.Now\nvar _ = os.Exit\n\n", pkgName)
	b.WriteString("func TestGovcReplay(t *testing.T) {\n")
	for _, s := range vb.pre {
		b.WriteString("\t" + s + "\n")
	}
	var args []string
	for i, ex := range argExprs {
		fmt.Fprintf(&b, "\ta%d := %s\n\t_ = a%d\n", i, ex, i)
		args = append(args, fmt.Sprintf("a%d", i))
	}
	argList := strings.Join(args, ", ")
	// preconditions
	for _, cl := range blk.Pre {
		a := argList
		if cl.RecvOnly {
			a = args[0]
		}
		fmt.Fprintf(&b, "\tif !%s(%s) {\n\t\tfmt.Println(\"GOVC-REPLAY: precondition does not hold on the model input (spurious model): %s\")\n\t\treturn\n\t}\n", cl.SynName, a, strings.ReplaceAll(cl.Text, "\"", "'"))
	}
	// call expression
	var call string
	if fn.Signature.Recv() != nil {
		call = fmt.Sprintf("a0.%s(%s)", fn.Name(), strings.Join(args[1:], ", "))
	} else {
		call = fmt.Sprintf("%s(%s)", fn.Name(), argList)
	}
	nres := fn.Signature.Results().Len()
	var resNames []string
	for i := 0; i < nres; i++ {
		resNames = append(resNames, fmt.Sprintf("r%d", i))
	}
	// old snapshots are not supported in replay: posts mentioning old() are evaluated only if state-free
	b.WriteString("\tdone := make(chan string, 1)\n\tgo func() {\n\t\tdefer func() {\n\t\t\tif r := recover(); r != nil {\n\t\t\t\tdone <- fmt.Sprintf(\"panic: %v\", r)\n\t\t\t}\n\t\t}()\n")
	if nres > 0 {
		fmt.Fprintf(&b, "\t\t%s := %s\n", strings.Join(resNames, ", "), call)
		for _, r := range resNames {
			fmt.Fprintf(&b, "\t\t_ = %s\n", r)
		}
	} else {
		fmt.Fprintf(&b, "\t\t%s\n", call)
	}
	b.WriteString("\t\tverdict := \"ok\"\n")
	for _, cl := range blk.Post {
		if strings.Contains(cl.Text, "old(") || strings.Contains(cl.Text, "__called") || strings.Contains(cl.Text, "__failed") {
			continue
		}
		a := argList
		if cl.RecvOnly {
			a = args[0]
		} else if nres > 0 {
			a = argList + ", " + strings.Join(resNames, ", ")
		}
		fmt.Fprintf(&b, "\t\tif !%s(%s) {\n\t\t\tverdict = \"postcondition violated: %s\"\n\t\t}\n", cl.SynName, a, strings.ReplaceAll(cl.Text, "\"", "'"))
	}
	b.WriteString("\t\tdone <- verdict\n\t}()\n")
	safety := o.Kind == "bounds" || o.Kind == "nil" || o.Kind == "assert-type" || o.Kind == "div0" || o.Kind == "panic-unreachable" || o.Kind == "overflow"
	b.WriteString("\tselect {\n\tcase v := <-done:\n\t\tswitch {\n\t\tcase v == \"ok\":\n\t\t\tfmt.Println(\"GOVC-REPLAY: no violation observed on the model input\")\n")
	if !safety {
		b.WriteString("\t\tcase len(v) > 6 && v[:6] == \"panic:\":\n\t\t\tfmt.Println(\"GOVC-REPLAY: inconclusive, the rebuilt input made the call panic (\" + v + \")\")\n")
	}
	b.WriteString("\t\tdefault:\n\t\t\tfmt.Println(\"GOVC-REPLAY: CONFIRMED \" + v)\n\t\t}\n\tcase <-time.After(5 * time.Second):\n\t\tfmt.Println(\"GOVC-REPLAY: CONFIRMED the call does not terminate within 5s\")\n\t\tos.Exit(0)\n\t}\n}\n")
	return b.String(), nil
}

// runReplay runs the generated test through `go test -overlay`.
func (e *Engine) runReplay(sv *Solver, fn *ssa.Function, src string) (string, error) {
	dir := filepath.Join(sv.dir, fmt.Sprintf("replay%d", time.Now().UnixNano()))
	if err := os.MkdirAll(dir, 0o755); err != nil {
		return "", err
	}
	defer os.RemoveAll(dir)
	pkgDir := ""
	pkg := e.ld.ByPath[fn.Pkg.Pkg.Path()]
	if len(pkg.GoFiles) > 0 {
		pkgDir = filepath.Dir(pkg.GoFiles[0])
	} else {
		return "", fmt.Errorf("package directory unknown")
	}
	testFile := filepath.Join(dir, "govc_replay_test.go")
	if err := os.WriteFile(testFile, []byte(src), 0o644); err != nil {
		return "", err
	}
	replace := map[string]string{filepath.Join(pkgDir, "zz_govc_replay_test.go"): testFile}
	n := 0
	var paths []string
	for p := range e.ld.Overlay {
		paths = append(paths, p)
	}
	sort.Strings(paths)
	for _, p := range paths {
		n++
		of := filepath.Join(dir, fmt.Sprintf("overlay%d.go", n))
		if err := os.WriteFile(of, e.ld.Overlay[p], 0o644); err != nil {
			return "", err
		}
		replace[p] = of
	}
	ov, _ := json.Marshal(map[string]interface{}{"Replace": replace})
	ovFile := filepath.Join(dir, "overlay.json")
	os.WriteFile(ovFile, ov, 0o644)
	ctx, cancel := context.WithTimeout(context.Background(), 120*time.Second)
	defer cancel()
	rel, _ := filepath.Rel(e.ld.RepoDir, pkgDir)
	cmd := exec.CommandContext(ctx, "go", "test", "-tags", "verif", "-overlay", ovFile, "-vet=off", "-count=1", "-timeout", "60s", "-run", "^TestGovcReplay$", "-v", "./"+rel)
	cmd.Dir = e.ld.RepoDir
	cmd.Env = append(os.Environ(), "GOFLAGS=-mod=mod", "GOPROXY=off", "GOSUMDB=off", "GOTOOLCHAIN=local")
	var out bytes.Buffer
	cmd.Stdout = &out
	cmd.Stderr = &out
	err := cmd.Run()
	return out.String(), err
}

var _ = printer.Fprint
