package main

// Minimal SMT-LIB term layer. Terms are strings with a sort tag; the builders
// do a few peephole simplifications (constant folding, select-over-store,
// neutral elements) so that generated conditions stay readable.

import (
	"fmt"
	"math/big"
	"strings"
)

type Sort string

const (
	SInt  Sort = "Int"
	SBool Sort = "Bool"
	SStr  Sort = "Str"
)

func ArrSort(i, e Sort) Sort { return Sort("(Array " + string(i) + " " + string(e) + ")") }

type Term struct {
	S    string
	Sort Sort
}

func (t Term) String() string { return t.S }

var (
	TTrue  = Term{"true", SBool}
	TFalse = Term{"false", SBool}
)

func IntLit(n int64) Term {
	if n < 0 {
		return Term{fmt.Sprintf("(- %d)", -n), SInt}
	}
	return Term{fmt.Sprintf("%d", n), SInt}
}

func BigLit(n *big.Int) Term {
	if n.Sign() < 0 {
		return Term{"(- " + new(big.Int).Neg(n).String() + ")", SInt}
	}
	return Term{n.String(), SInt}
}

func BoolLit(b bool) Term {
	if b {
		return TTrue
	}
	return TFalse
}

func (t Term) IsTrue() bool  { return t.S == "true" }
func (t Term) IsFalse() bool { return t.S == "false" }

// intConst returns the constant value of a literal term.
func (t Term) intConst() (*big.Int, bool) {
	s := t.S
	neg := false
	if strings.HasPrefix(s, "(- ") && strings.HasSuffix(s, ")") {
		s = s[3 : len(s)-1]
		neg = true
	}
	if s == "" {
		return nil, false
	}
	for _, c := range s {
		if c < '0' || c > '9' {
			return nil, false
		}
	}
	n, ok := new(big.Int).SetString(s, 10)
	if !ok {
		return nil, false
	}
	if neg {
		n.Neg(n)
	}
	return n, true
}

func app(sort Sort, op string, args ...Term) Term {
	var b strings.Builder
	b.WriteByte('(')
	b.WriteString(op)
	for _, a := range args {
		b.WriteByte(' ')
		b.WriteString(a.S)
	}
	b.WriteByte(')')
	return Term{b.String(), sort}
}

func And(ts ...Term) Term {
	var out []Term
	for _, t := range ts {
		if t.IsTrue() {
			continue
		}
		if t.IsFalse() {
			return TFalse
		}
		out = append(out, t)
	}
	switch len(out) {
	case 0:
		return TTrue
	case 1:
		return out[0]
	}
	return app(SBool, "and", out...)
}

func Or(ts ...Term) Term {
	var out []Term
	for _, t := range ts {
		if t.IsFalse() {
			continue
		}
		if t.IsTrue() {
			return TTrue
		}
		out = append(out, t)
	}
	switch len(out) {
	case 0:
		return TFalse
	case 1:
		return out[0]
	}
	return app(SBool, "or", out...)
}

func Not(t Term) Term {
	if t.IsTrue() {
		return TFalse
	}
	if t.IsFalse() {
		return TTrue
	}
	if strings.HasPrefix(t.S, "(not ") {
		return Term{t.S[5 : len(t.S)-1], SBool}
	}
	return app(SBool, "not", t)
}

func Implies(a, b Term) Term {
	if a.IsTrue() {
		return b
	}
	if a.IsFalse() || b.IsTrue() {
		return TTrue
	}
	return app(SBool, "=>", a, b)
}

func Eq(a, b Term) Term {
	if a.S == b.S {
		return TTrue
	}
	if ca, ok := a.intConst(); ok {
		if cb, ok := b.intConst(); ok {
			return BoolLit(ca.Cmp(cb) == 0)
		}
	}
	if a.Sort == SBool {
		if b.IsTrue() {
			return a
		}
		if a.IsTrue() {
			return b
		}
		if b.IsFalse() {
			return Not(a)
		}
		if a.IsFalse() {
			return Not(b)
		}
	}
	return app(SBool, "=", a, b)
}

func Ite(c, a, b Term) Term {
	if c.IsTrue() {
		return a
	}
	if c.IsFalse() {
		return b
	}
	if a.S == b.S {
		return a
	}
	if a.Sort == SBool {
		if a.IsTrue() && b.IsFalse() {
			return c
		}
		if a.IsFalse() && b.IsTrue() {
			return Not(c)
		}
	}
	return app(a.Sort, "ite", c, a, b)
}

func arith(op string, a, b Term) Term {
	ca, oka := a.intConst()
	cb, okb := b.intConst()
	if oka && okb {
		r := new(big.Int)
		switch op {
		case "+":
			return BigLit(r.Add(ca, cb))
		case "-":
			return BigLit(r.Sub(ca, cb))
		case "*":
			return BigLit(r.Mul(ca, cb))
		}
	}
	switch op {
	case "+":
		if oka && ca.Sign() == 0 {
			return b
		}
		if okb && cb.Sign() == 0 {
			return a
		}
	case "-":
		if okb && cb.Sign() == 0 {
			return a
		}
	case "*":
		if oka && ca.Cmp(big.NewInt(1)) == 0 {
			return b
		}
		if okb && cb.Cmp(big.NewInt(1)) == 0 {
			return a
		}
	}
	return app(SInt, op, a, b)
}

func Add(a, b Term) Term { return arith("+", a, b) }
func Sub(a, b Term) Term { return arith("-", a, b) }
func Mul(a, b Term) Term { return arith("*", a, b) }

func cmp(op string, a, b Term) Term {
	ca, oka := a.intConst()
	cb, okb := b.intConst()
	if oka && okb {
		c := ca.Cmp(cb)
		switch op {
		case "<":
			return BoolLit(c < 0)
		case "<=":
			return BoolLit(c <= 0)
		case ">":
			return BoolLit(c > 0)
		case ">=":
			return BoolLit(c >= 0)
		}
	}
	return app(SBool, op, a, b)
}

func Lt(a, b Term) Term { return cmp("<", a, b) }
func Le(a, b Term) Term { return cmp("<=", a, b) }
func Gt(a, b Term) Term { return cmp(">", a, b) }
func Ge(a, b Term) Term { return cmp(">=", a, b) }

// Euclidean div/mod of SMT-LIB; callers adjust for Go's truncation.
func Div(a, b Term) Term {
	ca, oka := a.intConst()
	cb, okb := b.intConst()
	if oka && okb && cb.Sign() > 0 && ca.Sign() >= 0 {
		return BigLit(new(big.Int).Div(ca, cb))
	}
	return app(SInt, "div", a, b)
}

func Mod(a, b Term) Term {
	ca, oka := a.intConst()
	cb, okb := b.intConst()
	if oka && okb && cb.Sign() > 0 {
		return BigLit(new(big.Int).Mod(ca, cb))
	}
	return app(SInt, "mod", a, b)
}

func Select(arr, idx Term) Term {
	es := elemSort(arr.Sort)
	// select over store with syntactically equal index
	if strings.HasPrefix(arr.S, "(store ") {
		if a, i, v, ok := splitStore(arr.S); ok {
			if i == idx.S {
				return Term{v, es}
			}
			// distinct integer literals: skip the store
			if ci, ok1 := (Term{i, SInt}).intConst(); ok1 {
				if cj, ok2 := idx.intConst(); ok2 && ci.Cmp(cj) != 0 {
					return Select(Term{a, arr.Sort}, idx)
				}
			}
		}
	}
	return app(es, "select", arr, idx)
}

func Store(arr, idx, val Term) Term {
	return app(arr.Sort, "store", arr, idx, val)
}

// elemSort returns E for "(Array I E)".
func elemSort(s Sort) Sort {
	str := string(s)
	if !strings.HasPrefix(str, "(Array ") {
		panic("elemSort of non-array sort " + str)
	}
	parts := splitTop(str[1 : len(str)-1])
	return Sort(parts[2])
}

func indexSort(s Sort) Sort {
	str := string(s)
	parts := splitTop(str[1 : len(str)-1])
	return Sort(parts[1])
}

// splitTop splits an s-expression body at top-level spaces.
func splitTop(s string) []string {
	var out []string
	depth := 0
	start := 0
	for i := 0; i < len(s); i++ {
		switch s[i] {
		case '(':
			depth++
		case ')':
			depth--
		case ' ':
			if depth == 0 {
				if i > start {
					out = append(out, s[start:i])
				}
				start = i + 1
			}
		case '|':
			// quoted symbol: skip to the closing bar
			j := i + 1
			for j < len(s) && s[j] != '|' {
				j++
			}
			i = j
		}
	}
	if start < len(s) {
		out = append(out, s[start:])
	}
	return out
}

func splitStore(s string) (arr, idx, val string, ok bool) {
	parts := splitTop(s[1 : len(s)-1])
	if len(parts) != 4 || parts[0] != "store" {
		return "", "", "", false
	}
	return parts[1], parts[2], parts[3], true
}

func Forall(vars []Term, body Term, patterns ...[]Term) Term {
	return quant("forall", vars, body, patterns...)
}

func Exists(vars []Term, body Term) Term {
	return quant("exists", vars, body)
}

func quant(q string, vars []Term, body Term, patterns ...[]Term) Term {
	if body.IsTrue() && q == "forall" {
		return TTrue
	}
	if body.IsFalse() && q == "exists" {
		return TFalse
	}
	var b strings.Builder
	b.WriteString("(" + q + " (")
	for _, v := range vars {
		fmt.Fprintf(&b, "(%s %s)", v.S, v.Sort)
	}
	b.WriteString(") ")
	if len(patterns) > 0 {
		b.WriteString("(! " + body.S)
		for _, p := range patterns {
			b.WriteString(" :pattern (")
			for i, t := range p {
				if i > 0 {
					b.WriteByte(' ')
				}
				b.WriteString(t.S)
			}
			b.WriteString(")")
		}
		b.WriteString(")")
	} else {
		b.WriteString(body.S)
	}
	b.WriteString(")")
	return Term{b.String(), SBool}
}

// smtSym makes an SMT-LIB safe symbol.
func smtSym(s string) string {
	var b strings.Builder
	for _, c := range s {
		switch {
		case c >= 'a' && c <= 'z', c >= 'A' && c <= 'Z', c >= '0' && c <= '9', c == '_', c == '.', c == '$', c == '!':
			b.WriteRune(c)
		default:
			fmt.Fprintf(&b, "_%x_", c)
		}
	}
	return b.String()
}

func pow2(k uint) *big.Int { return new(big.Int).Lsh(big.NewInt(1), k) }
