package main

// Solver portfolio: z3 5.1 (z3-new), cvc5 1.0, z3 4.8 — tried in turn per
// obligation; obligations run in parallel.

import (
	"bytes"
	"context"
	"fmt"
	"os"
	"os/exec"
	"path/filepath"
	"strings"
	"sync"
	"sync/atomic"
	"time"
)

type solverSpec struct {
	name string
	argv func(file string, timeoutS int) []string
}

var solvers = []solverSpec{
	{"z3-5.1.0", func(file string, t int) []string { return []string{"z3-new", fmt.Sprintf("-T:%d", t), file} }},
	{"cvc5-1.0", func(file string, t int) []string {
		return []string{"cvc5", fmt.Sprintf("--tlimit=%d", t*1000), "--incremental", file}
	}},
	{"z3-4.8.12", func(file string, t int) []string { return []string{"z3", fmt.Sprintf("-T:%d", t), file} }},
}

type solveResult struct {
	answer  string // sat, unsat, unknown, timeout, error
	backend string
	secs    float64
	raw     string
}

func runSolver(sp solverSpec, file string, timeoutS int) solveResult {
	ctx, cancel := context.WithTimeout(context.Background(), time.Duration(timeoutS+2)*time.Second)
	defer cancel()
	argv := sp.argv(file, timeoutS)
	cmd := exec.CommandContext(ctx, argv[0], argv[1:]...)
	var out bytes.Buffer
	cmd.Stdout = &out
	cmd.Stderr = &out
	t0 := time.Now()
	_ = cmd.Run()
	secs := time.Since(t0).Seconds()
	raw := out.String()
	first := ""
	for _, ln := range strings.Split(raw, "\n") {
		ln = strings.TrimSpace(ln)
		if ln == "" || strings.HasPrefix(ln, "WARNING") || strings.HasPrefix(ln, "(warning") {
			continue
		}
		first = ln
		break
	}
	ans := "error"
	if strings.Contains(raw, "(error") {
		return solveResult{"error", sp.name, secs, raw}
	}
	switch {
	case first == "sat", first == "unsat", first == "unknown":
		ans = first
	case strings.Contains(first, "timeout") || ctx.Err() != nil:
		ans = "timeout"
	case strings.Contains(raw, "interrupted by timeout"):
		ans = "timeout"
	}
	return solveResult{ans, sp.name, secs, raw}
}

var fileCounter int64

type Solver struct {
	dir      string
	timeoutS int
	agree    bool // thorough: also run the other solvers on proved obligations and report disagreement
	single   bool // one round with exactly timeoutS
	mu       sync.Mutex
	n        int
}

func newSolver(timeoutS int) (*Solver, error) {
	dir, err := os.MkdirTemp("/var/tmp", "govc.")
	if err != nil {
		return nil, err
	}
	return &Solver{dir: dir, timeoutS: timeoutS}, nil
}

func (s *Solver) cleanup() { os.RemoveAll(s.dir) }

func (s *Solver) file(text string) string {
	n := atomic.AddInt64(&fileCounter, 1)
	p := filepath.Join(s.dir, fmt.Sprintf("q%d.smt2", n))
	os.WriteFile(p, []byte(text), 0o644)
	return p
}

// discharge decides one obligation. Proof obligations are first tried on the
// sliced query (path condition restricted to the cone of influence of the
// goal: a weaker hypothesis, so unsat is a proof), then on the full query.
func (s *Solver) discharge(c *Ctx, o *Obligation) {
	if o.Expect == "sat" {
		// vacuity guard: the hypotheses must not be refutable. With quantified
		// axioms in the prelude a solver often cannot exhibit a model
		// ("unknown"); what matters is that none derives a contradiction.
		s2 := &Solver{dir: s.dir, timeoutS: min(s.timeoutS, 3), agree: false}
		s2.run(c, o, c.query(o, false), false)
		if o.Status == "UNPROVED" {
			o.Status = "COVERED"
			o.Backend += " (no contradiction found)"
		}
		return
	}
	// Interleave the sliced query (path condition restricted to the cone of
	// influence of the goal: weaker hypotheses, so unsat is a proof) and the
	// full query, short time limits first.
	type attempt struct {
		sliced bool
		t      int
	}
	plan := []attempt{{true, min(3, s.timeoutS)}, {false, min(3, s.timeoutS)}, {true, min(10, s.timeoutS)}, {false, s.timeoutS}}
	if o.ShortBudget {
		plan = []attempt{{true, min(3, s.timeoutS)}, {false, min(5, s.timeoutS)}}
	}
	if os.Getenv("GOVC_OLDPLAN") != "" {
		plan = []attempt{{true, min(3, s.timeoutS)}, {true, min(10, s.timeoutS)}, {false, min(3, s.timeoutS)}, {false, s.timeoutS}}
	}
	candidate := false
	sawError := false
	var candBackend string
	var total float64
	for ai, a := range plan {
		if a.sliced && (c.NoSlice || candidate) {
			continue
		}
		if ai >= 2 && a.t <= 3 && !o.ShortBudget {
			continue // no longer limit than the short attempts
		}
		t := a.t
		// (a model of the sliced query is only a candidate counterexample: the
		// full query keeps its whole budget, otherwise a loaded machine turns
		// an obligation whose full query needs a few seconds into an alarm)
		s1 := &Solver{dir: s.dir, timeoutS: t, agree: s.agree, single: true}
		q := c.query(o, false)
		if a.sliced {
			q = c.slicedQuery(o, false)
		}
		s1.run(c, o, q, a.sliced)
		total += o.SolverS
		if o.Status == "PROVED" || o.Status == "DISAGREE" {
			o.SolverS = total
			return
		}
		if o.Status == "ERROR" {
			sawError = true
		}
		if o.Status == "REFUTED" {
			if !a.sliced {
				o.SolverS = total
				return
			}
			candidate = true
			candBackend = o.Backend
		}
	}
	o.SolverS = total
	if sawError && !candidate && o.Status != "REFUTED" {
		o.Status = "ERROR" // every solver rejected some query of this obligation: an engine defect, not a verdict
		return
	}
	slicedStatus, slicedBackend := "UNPROVED", ""
	if candidate {
		slicedStatus, slicedBackend = "REFUTED", candBackend
		if o.Status != "REFUTED" {
			o.Status = "UNPROVED"
		}
	}
	if o.Status == "UNPROVED" && slicedStatus == "REFUTED" {
		// only the sliced query has a model: a candidate counterexample
		o.Status = "REFUTED"
		o.Backend = slicedBackend
		o.Sliced = true
		for _, sp := range solvers {
			if sp.name == slicedBackend {
				s.modelOf(c, o, sp, c.slicedQuery(o, true))
			}
		}
	}
}

func (s *Solver) run(c *Ctx, o *Obligation, q string, sliced bool) {
	file := s.file(q)
	defer os.Remove(file)
	var total float64
	var last solveResult
	quick := s.timeoutS
	rounds := []int{min(3, quick), quick}
	if sliced {
		rounds = []int{min(3, quick), min(10, quick)}
	}
	if s.single {
		rounds = []int{quick}
	}
	var disagree []string
	nRuns, nErr := 0, 0
	for ri, t := range rounds {
		if ri == 1 && t <= rounds[0] {
			break
		}
		for _, sp := range solvers {
			r := runSolver(sp, file, t)
			total += r.secs
			last = r
			nRuns++
			if r.answer == "error" {
				nErr++
			}
			want := o.Expect
			if r.answer == "unsat" || r.answer == "sat" {
				o.Backend = r.backend
				o.SolverS = total
				o.Raw = r.raw
				if r.answer == want {
					if want == "unsat" {
						o.Status = "PROVED"
					} else {
						o.Status = "COVERED"
					}
					if s.agree {
						for _, sp2 := range solvers {
							if sp2.name == sp.name {
								continue
							}
							r2 := runSolver(sp2, file, min(10, quick))
							if (r2.answer == "sat" || r2.answer == "unsat") && r2.answer != r.answer {
								disagree = append(disagree, fmt.Sprintf("%s=%s vs %s=%s", r.backend, r.answer, r2.backend, r2.answer))
							}
						}
						if len(disagree) > 0 {
							o.Status = "DISAGREE"
							o.Raw = strings.Join(disagree, "; ")
						}
					}
					return
				}
				if want == "unsat" {
					o.Status = "REFUTED"
					if !sliced {
						s.modelOf(c, o, sp, c.query(o, true))
					}
				} else {
					o.Status = "VACUOUS"
				}
				return
			}
		}
	}
	o.Status = "UNPROVED"
	if nRuns > 0 && nErr == nRuns {
		o.Status = "ERROR"
	}
	o.Backend = last.backend
	o.SolverS = total
	o.Raw = last.answer + ": " + strings.TrimSpace(last.raw)
}

func (s *Solver) modelOf(c *Ctx, o *Obligation, sp solverSpec, q string) {
	file := s.file(q)
	defer os.Remove(file)
	r := runSolver(sp, file, s.timeoutS)
	o.Raw = r.raw
	o.Model = parseModel(r.raw, c.inputs)
}

// parseModel extracts (name value) pairs from a get-value answer.
func parseModel(raw string, inputs []InputLeaf) map[string]string {
	m := map[string]string{}
	if i := strings.Index(raw, "\nsat"); i >= 0 {
		raw = raw[i:]
	}
	idx := strings.Index(raw, "((")
	if idx < 0 {
		return m
	}
	body := raw[idx:]
	body = strings.TrimSpace(body)
	if len(body) < 2 {
		return m
	}
	parts := splitTop(body[1 : len(body)-1])
	byConst := map[string]string{}
	for _, in := range inputs {
		byConst[in.Const] = in.Name
	}
	for _, p := range parts {
		p = strings.TrimSpace(p)
		if !strings.HasPrefix(p, "(") {
			continue
		}
		kv := splitTop(p[1 : len(p)-1])
		if len(kv) != 2 {
			continue
		}
		if name, ok := byConst[kv[0]]; ok {
			m[name] = kv[1]
		}
	}
	return m
}

// dischargeAll runs all obligations of the units in parallel.
func (s *Solver) dischargeAll(units []*Unit, workers int) {
	type job struct {
		c *Ctx
		o *Obligation
	}
	jobs := make(chan job)
	var wg sync.WaitGroup
	for i := 0; i < workers; i++ {
		wg.Add(1)
		go func() {
			defer wg.Done()
			for j := range jobs {
				s.discharge(j.c, j.o)
			}
		}()
	}
	for _, u := range units {
		for _, o := range u.Ctx.obls {
			jobs <- job{u.Ctx, o}
		}
	}
	close(jobs)
	wg.Wait()
}
