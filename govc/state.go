package main

// Symbolic state, merging, heap access through pointer shapes.

import (
	"reflect"
	"fmt"
	"strings"
	"go/types"
	"sort"

	"golang.org/x/tools/go/ssa"
)

type deferRec struct {
	instr *ssa.Defer
	frame *Frame
}

type State struct {
	Reach  Term
	Heap   map[string]Term
	Cells  map[*Cell][]Term
	Alloc  Term
	Defers []deferRec
	Ghost  map[string]Term // ghost call records: called:<name>, failed:<name>
	GhostUnknown bool      // absent records are unknown (inside / after a loop) rather than false
	// GhostLoopNames: when non-nil, only records of these call names ("*" = any)
	// are unknown when absent; the others are still "not called"
	GhostLoopNames map[string]bool
	// GhostMemo: one value per unknown absent record, shared by all states
	// derived from the point where the records became unknown (so that two
	// clauses reading the same record speak about the same value)
	GhostMemo map[string]Term
	Gen    int // heap generation: keys absent from Heap denote the generation's initial constant
}

func (s *State) clone() *State {
	n := &State{Reach: s.Reach, Alloc: s.Alloc, Gen: s.Gen, GhostUnknown: s.GhostUnknown, GhostLoopNames: s.GhostLoopNames, GhostMemo: s.GhostMemo}
	n.Heap = make(map[string]Term, len(s.Heap))
	for k, v := range s.Heap {
		n.Heap[k] = v
	}
	n.Cells = make(map[*Cell][]Term, len(s.Cells))
	for k, v := range s.Cells {
		n.Cells[k] = v
	}
	n.Defers = append([]deferRec(nil), s.Defers...)
	if s.Ghost != nil {
		n.Ghost = make(map[string]Term, len(s.Ghost))
		for k, v := range s.Ghost {
			n.Ghost[k] = v
		}
	}
	return n
}

func (s *State) dead() bool { return s.Reach.IsFalse() }

func (s *State) assume(c *Ctx, t Term) {
	if t.IsTrue() {
		return
	}
	s.Reach = c.reachAnd(s.Reach, t)
}

// assumeFact adds a fact that is not a path condition (type invariants of
// loaded, unboxed or fresh values). While specification code is evaluated,
// path conditions become ite conditions of the result, so such facts are
// collected on the side instead.
func (c *Ctx) assumeFact(s *State, t Term) {
	if c.specDepth > 0 {
		c.addFact(t)
		return
	}
	s.assume(c, t)
}

// heapGet returns the current term of a heap map.
func (c *Ctx) heapGet(s *State, key string, sort Sort) Term {
	c.eng.keySorts[key] = sort
	if t, ok := s.Heap[key]; ok {
		return t
	}
	return c.heapInit(s.Gen, key, sort)
}

type inEdge struct {
	st   *State
	pred *ssa.BasicBlock
}

// mergeStates joins states arriving over mutually exclusive edges.
func (c *Ctx) mergeStates(ins []*State) *State {
	if len(ins) == 1 {
		return ins[0].clone()
	}
	out := &State{Heap: map[string]Term{}, Cells: map[*Cell][]Term{}, Gen: ins[0].Gen}
	sameGen := true
	for _, s := range ins {
		if s.Gen != out.Gen {
			sameGen = false
		}
	}
	var reaches []Term
	for _, s := range ins {
		reaches = append(reaches, s.Reach)
	}
	out.Reach = c.reachOr(reaches)
	var allocs []Term
	for _, s := range ins {
		allocs = append(allocs, s.Alloc)
	}
	out.Alloc = c.define("alloc", c.iteChain(reaches, allocs))
	// heap keys
	keys := map[string]bool{}
	for _, s := range ins {
		for k := range s.Heap {
			keys[k] = true
		}
	}
	if !sameGen {
		// different generations: every known key must be merged explicitly
		for k := range c.eng.keySorts {
			keys[k] = true
		}
		c.genN++
		out.Gen = c.genN
	}
	var ks []string
	for k := range keys {
		ks = append(ks, k)
	}
	sort.Strings(ks)
	for _, k := range ks {
		var vals []Term
		var sortOf Sort
		for _, s := range ins {
			if t, ok := s.Heap[k]; ok {
				sortOf = t.Sort
			}
		}
		if sortOf == "" {
			sortOf = c.eng.keySorts[k]
		}
		for _, s := range ins {
			vals = append(vals, c.heapGet(s, k, sortOf))
		}
		c.setHeap(out, k, c.define("heap", c.iteChain(reaches, vals)))
	}
	// cells
	cells := map[*Cell]bool{}
	for _, s := range ins {
		for k := range s.Cells {
			cells[k] = true
		}
	}
	for cell := range cells {
		n := len(layout(cell.Typ))
		merged := make([]Term, n)
		ok := true
		for i := 0; i < n; i++ {
			var vals []Term
			for _, s := range ins {
				v, has := s.Cells[cell]
				if !has {
					ok = false
					break
				}
				vals = append(vals, v[i])
			}
			if !ok {
				break
			}
			merged[i] = c.define("cell", c.iteChain(reaches, vals))
		}
		if ok {
			out.Cells[cell] = merged
		}
	}
	// ghost call records
	gk := map[string]bool{}
	for _, s := range ins {
		for k := range s.Ghost {
			gk[k] = true
		}
		if s.GhostUnknown {
			out.GhostUnknown = true
		}
	}
	if out.GhostUnknown {
		// union of the name sets; nil (everything unknown) absorbs
		all := false
		names := map[string]bool{}
		for _, s := range ins {
			if !s.GhostUnknown {
				continue
			}
			if s.GhostLoopNames == nil {
				all = true
			}
			for k := range s.GhostLoopNames {
				names[k] = true
			}
		}
		if !all {
			out.GhostLoopNames = names
		}
		// the memo survives a join only if every incoming state shares it
		same := true
		for _, s := range ins {
			if !sameMap(s.GhostMemo, ins[0].GhostMemo) {
				same = false
			}
		}
		if same && ins[0].GhostMemo != nil {
			out.GhostMemo = ins[0].GhostMemo
		} else {
			out.GhostMemo = map[string]Term{}
		}
	}
	if len(gk) > 0 {
		out.Ghost = map[string]Term{}
		for k := range gk {
			var vals []Term
			for _, s := range ins {
				v, ok := s.Ghost[k]
				if !ok {
					if strings.HasPrefix(k, "result:") {
						v = c.fresh("ghostres", SInt)
					} else if strings.HasPrefix(k, "res:") {
						// positional result record: unknown where the call did not happen
						srt := SBool
						for _, s2 := range ins {
							if v2, ok2 := s2.Ghost[k]; ok2 {
								srt = v2.Sort
							}
						}
						v = c.fresh("ghostres", srt)
					} else {
						v = TFalse
						if s.ghostAbsentUnknown(k) {
							v = s.ghostUnknownVal(c, k)
						}
					}
				}
				vals = append(vals, v)
			}
			out.Ghost[k] = c.define("ghost", c.iteChain(reaches, vals))
		}
	}
	// defers: keep the longest common prefix property simple: require equality
	out.Defers = append([]deferRec(nil), ins[0].Defers...)
	for _, s := range ins[1:] {
		if len(s.Defers) != len(out.Defers) {
			c.note("abstracted", "defer lists differ at a join in "+c.unit)
			if len(s.Defers) > len(out.Defers) {
				out.Defers = append([]deferRec(nil), s.Defers...)
			}
		}
	}
	return out
}

func (c *Ctx) iteChain(conds []Term, vals []Term) Term {
	res := vals[len(vals)-1]
	for i := len(vals) - 2; i >= 0; i-- {
		res = Ite(conds[i], vals[i], res)
	}
	return res
}

// ---- pointer shapes ----

func (c *Ctx) shapeOf(ptr Term, ptrType types.Type) *PtrShape {
	if sh, ok := c.shapes[ptr.S]; ok {
		return sh
	}
	el := deref(ptrType)
	return &PtrShape{Kind: pObj, Ref: ptr, Root: el, Off: 0, Typ: el}
}

func (c *Ctx) newShapePtr(sh *PtrShape, prefix string) Term {
	if sh.Kind == pObj && sh.Off == 0 && types.Identical(sh.Root, sh.Typ) {
		return sh.Ref
	}
	// interior pointers get negative identities: never nil, never equal to an object reference
	p := c.fresh(prefix, SInt)
	c.assert(Lt(p, IntLit(0)))
	c.shapes[p.S] = sh
	return p
}

func (c *Ctx) load(s *State, sh *PtrShape) []Term {
	n := len(layout(sh.Typ))
	out := make([]Term, n)
	bounds := make([]Term, n)
	for i := range bounds {
		bounds[i] = s.Alloc
	}
	switch sh.Kind {
	case pLocal:
		v, ok := s.Cells[sh.Cell]
		if !ok {
			v = zeroLeaves(sh.Cell.Typ)
		}
		copy(out, v[sh.Off:sh.Off+n])
		return out
	case pObj:
		lay := layout(sh.Root)
		for k := 0; k < n; k++ {
			key := objKey(sh.Root, sh.Off+k)
			h := c.heapGet(s, key, c.heapSort(key, lay[sh.Off+k]))
			bounds[k] = c.allocBound(s, h)
			out[k] = Select(h, sh.Ref)
		}
	case pElem:
		if arr, ok := sh.Typ.Underlying().(*types.Array); ok && !types.Identical(sh.Typ, sh.Root) {
			// whole array value read element by element
			var res []Term
			el := &PtrShape{Kind: pElem, Ref: sh.Ref, Root: sh.Root, Off: 0, Typ: arr.Elem(), View: sh.View}
			for j := int64(0); j < arr.Len(); j++ {
				el.Idx = Add(sh.Idx, IntLit(j))
				res = append(res, c.load(s, el)...)
			}
			return res
		}
		lay := layout(sh.Root)
		for k := 0; k < n; k++ {
			key := arrKey(sh.Root, sh.Off+k)
			h := c.heapGet(s, key, c.heapSort(key, lay[sh.Off+k]))
			bounds[k] = c.allocBound(s, h)
			if sh.View.S != "" && sh.View.S != "0" {
				out[k] = Select(c.shiftView(Select(h, sh.Ref), sh.View), sh.Idx)
			} else {
				out[k] = Select(Select(h, sh.Ref), sh.Idx)
			}
		}
	}
	for k := range out {
		out[k] = c.define("ld", out[k])
	}
	if sh.Kind != pLocal {
		if c.specDepth > 0 {
			c.addFact(typeInv(sh.Typ, out))
		} else {
			s.assume(c, typeInv(sh.Typ, out))
			s.assume(c, refsBelowEach(sh.Typ, out, bounds))
		}
	}
	return out
}

func (c *Ctx) store(s *State, sh *PtrShape, vals []Term) {
	n := len(layout(sh.Typ))
	if len(vals) != n {
		panic(fmt.Sprintf("store: %d leaves for type %v (%d)", len(vals), sh.Typ, n))
	}
	switch sh.Kind {
	case pLocal:
		cur, ok := s.Cells[sh.Cell]
		if !ok {
			cur = zeroLeaves(sh.Cell.Typ)
		}
		nv := append([]Term(nil), cur...)
		copy(nv[sh.Off:sh.Off+n], vals)
		s.Cells[sh.Cell] = nv
	case pObj:
		lay := layout(sh.Root)
		for k := 0; k < n; k++ {
			key := objKey(sh.Root, sh.Off+k)
			h := c.heapGet(s, key, c.heapSort(key, lay[sh.Off+k]))
			c.setHeap(s, key, c.define("heap", Store(h, sh.Ref, vals[k])))
		}
	case pElem:
		if arr, ok := sh.Typ.Underlying().(*types.Array); ok && !types.Identical(sh.Typ, sh.Root) {
			el := &PtrShape{Kind: pElem, Ref: sh.Ref, Root: sh.Root, Off: 0, Typ: arr.Elem(), View: sh.View}
			w := len(layout(arr.Elem()))
			for j := int64(0); j < arr.Len(); j++ {
				el.Idx = Add(sh.Idx, IntLit(j))
				c.store(s, el, vals[int(j)*w:int(j+1)*w])
			}
			return
		}
		lay := layout(sh.Root)
		for k := 0; k < n; k++ {
			key := arrKey(sh.Root, sh.Off+k)
			h := c.heapGet(s, key, c.heapSort(key, lay[sh.Off+k]))
			ix := sh.Idx
			if sh.View.S != "" && sh.View.S != "0" {
				ix = Add(sh.View, sh.Idx)
			}
			inner := Store(Select(h, sh.Ref), ix, vals[k])
			c.setHeap(s, key, c.define("heap", Store(h, sh.Ref, inner)))
		}
	}
}

// allocRef returns a fresh reference.
func (c *Ctx) allocRef(s *State) Term {
	r := c.define("ref", s.Alloc)
	s.Alloc = c.define("alloc", Add(s.Alloc, IntLit(1)))
	return r
}

// allocObj allocates a zeroed object of type t and returns its reference.
func (c *Ctx) allocObj(s *State, t types.Type) Term {
	r := c.allocRef(s)
	sh := &PtrShape{Kind: pObj, Ref: r, Root: t, Off: 0, Typ: t}
	c.store(s, sh, zeroLeaves(t))
	return r
}

// allocArray allocates a backing array with all elements zero.
func (c *Ctx) allocArray(s *State, elem types.Type) Term {
	r := c.allocRef(s)
	lay := layout(elem)
	z := zeroLeaves(elem)
	for k := range lay {
		key := arrKey(elem, k)
		h := c.heapGet(s, key, c.heapSort(key, lay[k]))
		konst := Term{fmt.Sprintf("((as const %s) %s)", ArrSort(SInt, lay[k].Sort), z[k].S), ArrSort(SInt, lay[k].Sort)}
		c.setHeap(s, key, c.define("heap", Store(h, r, konst)))
	}
	return r
}

// arrContents returns the content array (Array Int leaf) of leaf k of a backing array.
func (c *Ctx) arrContents(s *State, elem types.Type, k int, base Term) Term {
	lay := layout(elem)
	key := arrKey(elem, k)
	h := c.heapGet(s, key, c.heapSort(key, lay[k]))
	return Select(h, base)
}

func (c *Ctx) setArrContents(s *State, elem types.Type, k int, base Term, arr Term) {
	lay := layout(elem)
	key := arrKey(elem, k)
	h := c.heapGet(s, key, c.heapSort(key, lay[k]))
	c.setHeap(s, key, c.define("heap", Store(h, base, arr)))
}

// setHeap installs a new version of a heap map and remembers the allocation
// frontier at its creation: every reference stored in that version denotes an
// object allocated before.
func (c *Ctx) setHeap(s *State, key string, t Term) {
	s.Heap[key] = t
	if _, ok := c.heapAlloc[t.S]; !ok {
		c.heapAlloc[t.S] = s.Alloc
	}
}

// allocBound: the frontier below which references read from heap version h lie.
func (c *Ctx) allocBound(s *State, h Term) Term {
	if a, ok := c.heapAlloc[h.S]; ok {
		return a
	}
	return s.Alloc
}

// ghostKeyName extracts the call name from a ghost record key
// ("called:N", "failed:N", "result:N", "res:N:k").
func ghostKeyName(k string) string {
	i := strings.IndexByte(k, ':')
	if i < 0 {
		return k
	}
	n := k[i+1:]
	if strings.HasPrefix(k, "res:") {
		if j := strings.LastIndexByte(n, ':'); j >= 0 {
			n = n[:j]
		}
	}
	return n
}

// ghostAbsentUnknown: an absent record with this key is unknown (rather than
// "not called") in this state.
func sameMap(a, b map[string]Term) bool {
	if a == nil || b == nil {
		return a == nil && b == nil
	}
	return reflect.ValueOf(a).Pointer() == reflect.ValueOf(b).Pointer()
}

// ghostUnknownVal: the value of an absent, unknown record (memoised per havoc point).
func (s *State) ghostUnknownVal(c *Ctx, key string) Term {
	if s.GhostMemo == nil {
		return c.fresh("ghostunk", SBool)
	}
	if v, ok := s.GhostMemo[key]; ok {
		return v
	}
	v := c.fresh("ghostunk", SBool)
	s.GhostMemo[key] = v
	return v
}

func (s *State) ghostAbsentUnknown(key string) bool {
	if !s.GhostUnknown {
		return false
	}
	if s.GhostLoopNames == nil || s.GhostLoopNames["*"] {
		return true
	}
	return s.GhostLoopNames[ghostKeyName(key)]
}
