package main

// Verification units: one per contract block whose body is checked.

import (
	"sort"
	"golang.org/x/tools/go/ssa"
	"fmt"
	"go/types"
	"strings"
)

type Unit struct {
	Block *Block
	Ctx   *Ctx
	Err   string // engine-level failure (unsupported construct, ...)
}

// paramNames returns display names for the parameters of the block's target.
func (e *Engine) verifyBlock(blk *Block) (u *Unit) {
	fn := blk.Target
	name := blk.QualName()
	c := newCtx(e, name)
	c.props = blk.Props
	c.block = blk
	if blk.Fuel > 0 {
		c.fuel = blk.Fuel
	}
	u = &Unit{Block: blk, Ctx: c}
	defer func() {
		if r := recover(); r != nil {
			if ue, ok := r.(unsupportedErr); ok {
				u.Err = ue.msg
				return
			}
			panic(r)
		}
	}()
	if len(fn.Blocks) == 0 {
		u.Err = "function has no body"
		return u
	}
	st := &State{Reach: TTrue, Heap: map[string]Term{}, Cells: map[*Cell][]Term{}}
	alloc0 := c.fresh("alloc0", SInt)
	c.assert(Ge(alloc0, IntLit(maxGlobals)))
	st.Alloc = alloc0
	c.alloc0 = alloc0
	f := &Frame{ctx: c, fn: fn, vals: map[ssa.Value][]Term{}, block: blk, top: true, label: name}
	// parameters
	for i, p := range fn.Params {
		pname := p.Name()
		if i < len(blk.ParamNames) {
			pname = blk.ParamNames[i]
		}
		ls := c.freshLeaves("in_"+pname, p.Type())
		lay := layout(p.Type())
		if _, isSlice := p.Type().Underlying().(*types.Slice); isSlice {
			ls[1] = IntLit(0)
		}
		for k := range ls {
			if ls[k].S == "0" {
				continue
			}
			nm := pname
			if len(ls) > 1 {
				nm = fmt.Sprintf("%s#%d%s", pname, k, lay[k].Role)
			}
			c.inputs = append(c.inputs, InputLeaf{Name: nm, Const: ls[k].S, Sort: ls[k].Sort})
		}
		c.assert(typeInv(p.Type(), ls))
		switch pt := p.Type().Underlying().(type) {
		case *types.Pointer:
			c.assert(Lt(ls[0], alloc0))
			_ = pt
		case *types.Slice:
			c.assert(Lt(ls[0], alloc0))
			// slice parameters are normalised to offset 0 (see DESIGN: memory model)
			ls[1] = IntLit(0)
			c.note("assumed", "slice parameters are viewed at offset 0 of their backing array; partial overlap between distinct slice parameters is not modelled")
		case *types.Map, *types.Chan:
			c.assert(Lt(ls[0], alloc0))
		}
		f.argVals = append(f.argVals, ls)
	}
	for _, fv := range fn.FreeVars {
		ls := c.freshLeaves("fv_"+fv.Name(), fv.Type())
		c.assert(typeInv(fv.Type(), ls))
		if _, ok := fv.Type().Underlying().(*types.Pointer); ok {
			c.assert(And(Gt(ls[0], IntLit(0)), Lt(ls[0], alloc0)))
		}
		f.bindings = append(f.bindings, ls)
	}
	// closure blocks: captured variables follow the parameters in clause functions
	for _, cn := range blk.Captures {
		found := false
		for i, fv := range fn.FreeVars {
			if fv.Name() != cn {
				continue
			}
			found = true
			if pt, ok := fv.Type().Underlying().(*types.Pointer); ok {
				// captured by reference: the clause sees the variable's value at entry
				sh := &PtrShape{Kind: pObj, Ref: f.bindings[i][0], Root: pt.Elem(), Off: 0, Typ: pt.Elem()}
				f.argVals = append(f.argVals, c.load(st, sh))
			} else {
				f.argVals = append(f.argVals, f.bindings[i])
			}
		}
		if !found {
			u.Err = "contract-target-changed: closure does not capture " + cn
			return u
		}
	}
	// a package initialiser is verified for the run that actually initialises
	// (its guard is still false), and its proved postconditions (flag
	// global-invariant) are assumed at the entry of every other unit of the
	// package - sound because nothing else writes the globals they mention
	// (checked below)
	if fn.Pkg != nil && fn == fn.Pkg.Func("init") {
		if g, ok := fn.Pkg.Members["init$guard"].(*ssa.Global); ok {
			c.store(st, c.shapeOf(c.globalRef(g), g.Type()), []Term{TFalse})
		}
		if blk.Flags["global-invariant"] {
			if msg := e.globalsWrittenOutsideInit(blk); msg != "" {
				u.Err = "global-invariant: " + msg
				return u
			}
		}
	} else if fn.Pkg != nil {
		if ib := e.ld.ByFn[fn.Pkg.Func("init")]; ib != nil && ib.Flags["global-invariant"] && ib != blk {
			for _, cl := range ib.Post {
				if cl.Fn.Signature.Params().Len() != 0 {
					continue
				}
				t := c.evalSpecFn(cl.Fn, nil, st, snapOf(st), f)[0]
				st.assume(c, t)
				c.note("assumed", "global invariant of package "+fn.Pkg.Pkg.Name()+" (proved for its initialiser, globals not written elsewhere): "+cl.Text)
				c.used[ib] = true
			}
		}
	}
	// preconditions
	entrySnap := snapOf(st)
	for _, cl := range blk.Pre {
		pa := f.argVals
		if cl.RecvOnly {
			pa = pa[:1]
			c.note("assumed", "object invariant assumed at method entry: "+cl.Text+" ("+blk.RecvType+")")
		}
		t := c.evalSpecFn(cl.Fn, pa, st, entrySnap, f)[0]
		st.assume(c, t)
	}
	c.addObl(&Obligation{Name: name + "/cover-pre", Kind: "cover-pre", Fn: name, Pos: e.ld.Prog.Fset.Position(fn.Pos()), Text: "preconditions and type invariants are satisfiable", Reach: st.Reach, Goal: TTrue, Expect: "sat"})
	f.entry = st.clone()
	for _, ac := range blk.At {
		if ac.AnchorLine == 0 {
			u.Err = "contract-target-changed: anchor \"" + ac.Anchor + "\" not found in " + name
			return u
		}
	}
	f.run(st)
	for _, ac := range blk.At {
		if !f.atDone[ac] {
			u.Err = "contract-target-changed: ghost statement at \"" + ac.Anchor + "\" was never reached"
			return u
		}
	}
	// postconditions at every return
	for ri, r := range f.rets {
		var resVals [][]Term
		rt := fn.Signature.Results()
		off := 0
		for i := 0; i < rt.Len(); i++ {
			n := len(layout(rt.At(i).Type()))
			resVals = append(resVals, r.vals[off:off+n])
			off += n
		}
		all := append(append([][]Term{}, f.argVals...), resVals...)
		for _, cl := range blk.Post {
			if cl.Assumed {
				c.note("assumed", "assumed postcondition of "+name+" (not proved against its body): "+cl.Text)
				continue
			}
			pa := all
			if cl.RecvOnly {
				pa = all[:1]
			}
			t := c.evalSpecFn(cl.Fn, pa, r.st, snapOf(f.entry), f)[0]
			rpos := r.pos
			if !rpos.IsValid() {
				rpos = fn.Pos()
			}
			c.addObl(&Obligation{Name: fmt.Sprintf("%s/post%d@ret%d", name, cl.Index, ri), Kind: "post", Fn: name, Pos: e.ld.Prog.Fset.Position(rpos), Text: "ensures " + cl.Text, Reach: r.st.Reach, Goal: t, Clause: cl})
		}
	}
	// frame obligations: object fields of the types of the named pointer
	// parameters change only at those objects
	if len(blk.Modifies) > 0 && !blk.Flags["trusted"] {
		refsByPrefix := f.frameRefs(blk, fn.Params, f.argVals, f.entry.clone())
		var prefixes []string
		for p := range refsByPrefix {
			prefixes = append(prefixes, p)
		}
		sort.Strings(prefixes)
		for ri, r := range f.rets {
			for _, prefix := range prefixes {
				refs := refsByPrefix[prefix]
				var keys []string
				for key := range r.st.Heap {
					if strings.HasPrefix(key, prefix) {
						keys = append(keys, key)
					}
				}
				sort.Strings(keys)
				for _, key := range keys {
					fin := r.st.Heap[key]
					ent := c.heapGet(f.entry, key, fin.Sort)
					if ent.S == fin.S {
						continue
					}
					c.n++
					q := Term{fmt.Sprintf("fr!%d", c.n), SInt}
					var ne []Term
					for _, rf := range refs {
						ne = append(ne, Not(Eq(q, rf)))
					}
					ne = append(ne, Lt(q, f.entry.Alloc)) // objects allocated by the call itself are not part of the frame
					goal := Forall([]Term{q}, Implies(And(ne...), Eq(Select(fin, q), Select(ent, q))))
					c.addObl(&Obligation{Name: fmt.Sprintf("%s/frame:%s@ret%d", name, smtSym(key), ri), Kind: "post", Fn: name, Pos: e.ld.Prog.Fset.Position(fn.Pos()), Text: "modifies " + strings.Join(blk.Modifies, ", ") + "  [" + key + " unchanged elsewhere]", Reach: r.st.Reach, Goal: goal})
				}
			}
		}
	}
	// frame clause "fresh-arrays": backing arrays that existed at entry keep their contents
	if blk.Flags["fresh-arrays"] && !blk.Flags["trusted"] {
		for ri, r := range f.rets {
			var keys []string
			for key := range r.st.Heap {
				if strings.HasPrefix(key, "A|") {
					keys = append(keys, key)
				}
			}
			sort.Strings(keys)
			for _, key := range keys {
				fin := r.st.Heap[key]
				ent := c.heapGet(f.entry, key, fin.Sort)
				if ent.S == fin.S {
					continue
				}
				c.n++
				q := Term{fmt.Sprintf("fr!%d", c.n), SInt}
				goal := Forall([]Term{q}, Implies(Lt(q, f.entry.Alloc), Eq(Select(fin, q), Select(ent, q))))
				c.addObl(&Obligation{Name: fmt.Sprintf("%s/frame:%s@ret%d", name, smtSym(key), ri), Kind: "post", Fn: name, Pos: e.ld.Prog.Fset.Position(fn.Pos()), Text: "fresh-arrays  [" + key + ": arrays existing at entry unchanged]", Reach: r.st.Reach, Goal: goal})
			}
		}
	}
	if len(f.rets) == 0 && len(blk.Post) > 0 {
		u.Err = "no return point reached (postconditions vacuous)"
	}
	return u
}

func shortPos(p string) string {
	if i := strings.LastIndex(p, "/repo/"); i >= 0 {
		return p[i+6:]
	}
	return p
}

// globalsWrittenOutsideInit: the globals mentioned by the postconditions of a
// package initialiser must not be written (nor, for maps, updated) by any
// other function of the package; returns a description of the first offender.
func (e *Engine) globalsWrittenOutsideInit(ib *Block) string {
	initFn := ib.Target
	globals := map[*ssa.Global]bool{}
	for _, cl := range ib.Post {
		for _, b := range cl.Fn.Blocks {
			for _, in := range b.Instrs {
				for _, op := range in.Operands(nil) {
					if g, ok := (*op).(*ssa.Global); ok {
						globals[g] = true
					}
				}
			}
		}
	}
	fromGlobal := func(v ssa.Value) *ssa.Global {
		if u, ok := v.(*ssa.UnOp); ok {
			if g, ok := u.X.(*ssa.Global); ok && globals[g] {
				return g
			}
		}
		if g, ok := v.(*ssa.Global); ok && globals[g] {
			return g
		}
		return nil
	}
	for _, fn := range e.allFuncs {
		if fn == initFn || fn.Pkg != initFn.Pkg && (fn.Parent() == nil || rootFunction(fn).Pkg != initFn.Pkg) {
			continue
		}
		pos := e.ld.Prog.Fset.Position(fn.Pos())
		if strings.HasSuffix(pos.Filename, "_verif.go") {
			continue
		}
		for _, b := range fn.Blocks {
			for _, in := range b.Instrs {
				switch in := in.(type) {
				case *ssa.Store:
					if g := fromGlobal(in.Addr); g != nil {
						return fn.String() + " assigns " + g.Name()
					}
				case *ssa.MapUpdate:
					if g := fromGlobal(in.Map); g != nil {
						return fn.String() + " updates the map " + g.Name()
					}
				case ssa.CallInstruction:
					cc := in.Common()
					if bi, ok := cc.Value.(*ssa.Builtin); ok && bi.Name() == "delete" && len(cc.Args) > 0 {
						if g := fromGlobal(cc.Args[0]); g != nil {
							return fn.String() + " deletes from the map " + g.Name()
						}
					}
					// the global's address or the map itself handed to a callee that could modify it
					for _, a := range cc.Args {
						if g, ok := a.(*ssa.Global); ok && globals[g] {
							return fn.String() + " passes the address of " + g.Name() + " to a call"
						}
					}
				}
			}
		}
	}
	return ""
}
