#!/bin/bash
# run every stored seed against the check(s) of its property; print caught/missed
cd /verif
for d in seeded/*/; do
  id=$(basename $d)
  prop=$(python3 -c "import json;print(json.load(open('$d/meta.json')).get('property','${id%%-*}'))" 2>/dev/null || echo ${id%%-*})
  [ -z "$(git -C /repo status --porcelain)" ] || { echo "repo dirty"; exit 2; }
  git -C /repo apply /verif/$d/patch.diff 2>/dev/null || { echo "$id: patch does not apply"; continue; }
  n=$(bin/govc check --property $prop --no-evidence --no-replay 2>&1 | grep -c "^VIOLATION")
  git -C /repo checkout -- .
  echo "$id ($prop): violations=$n"
done
