#!/bin/sh
# usage: mkghost.sh <package dir under /repo> <package name>
sed "s/PKGNAME/$2/" /verif/tools/ghost_template.go.txt > "/repo/$1/ghost_verif.go"
