#!/usr/bin/env python3
"""Generate /verif/MANIFEST.json from the claim table below."""
import json, subprocess, os

CLAIMS = {
 "C01": dict(
  text="Deductive proof of the refusal and mode-selection half of the wire codec: Encoder.validQuoted equals the quoted-string admissibility predicate for every byte string (length threshold 4096, NUL/CR/LF, 8-bit bytes only with UTF-8 quoting), Encoder.String quotes only admissible strings, stringLiteral/Literal choose '{n}' vs '{n+}' exactly per side and negotiated mode and announce exactly len(s) bytes, isValidFlag equals the flag grammar [\\] 1*ATOM-CHAR, and a malformed flag, malformed mailbox attribute or empty number set is refused with an error before anything is written. Encoder.Quoted writes exactly the RFC quoted form of s (DQUOTE, each byte in order with '\"' and '\\\\' escaped, DQUOTE) for every byte string (loop invariant over a ghost model of strings.Builder). Numbers: Encoder.Number/Number64/ModSeq write the plain decimal numeral; Decoder.numberStr yields a non-empty run of digits; Decoder.Number/Number64/ModSeq succeed exactly when that run denotes a value that fits (32 / 63 / 64 bits) and then store exactly that value - so decode(encode(v)) == v for numbers, modulo the assumed strconv contract.",
  note="unicode.IsControl modelled by its Latin-1 definition (assumed); strconv.FormatUint/ParseUint/ParseInt modelled by a decimal-numeral theory (assumed, listed in evidence); strings.Builder modelled by its ghost content (assumed). Not covered (not claimed): the decoder side of quoted strings and literals (Decoder.Quoted/Literal as inverse of the encoder), mailbox UTF-7, nested lists, 'exactly the written bytes are consumed'; apart from numbers the decoder is under contract only for its error discipline (C02/C06).",
  design="§6 C01"),
 "C02": dict(
  text="Deductive proof of the error-propagation and accumulation half of command parsing: every imapwire.Decoder method keeps a recorded error (sticky: never cleared or replaced — rule over all methods, loops included), every Expect* method that reports failure has recorded an error, Decoder.Err returns it, out-parameters are the only cells written (frame obligations); the server's search-key parser reports a failing NOT/OR operand as an error (never success), and after each key every size/date bound is at least as tight as before and the flag lists only grow — with SearchCriteria.And proved to be the exact intersection (C19) this makes multi-key SEARCH arguments arrive un-weakened.",
  note="Callback-taking decoder methods (List, ExpectList, ExpectNList, Func) and the recursive readSearchKey carry assumed (trusted) contracts, listed in evidence. Not covered (not claimed): the client's option-name tables (map-range loops: returnSearchOptions, statusItems, ...) and their agreement with the server's tables, FETCH item/section syntax, byte-level framing between arguments, that back-end calls receive exactly the decoded variables.",
  design="§6 C02"),
 "C04": dict(
  text="Deductive proof, with a ghost counter of tagged response lines defined by the four functions that put a tag at the start of a line: Conn.readCommand, from any connection state and for every decoder outcome, writes exactly one tagged response when it returns without a connection-level error (at most two if a handler's own completion had been written and only its flush failed); handlers that send their own completion (STARTTLS, AUTHENTICATE, LOGIN, SELECT/EXAMINE, APPEND, COPY) write exactly one on success and none on failure (unless that write itself failed); every other method of Conn writes none; '+' is written by acceptLiteral only for synchronising literals and by IDLE only when authenticated; checkBufferedLiteral refuses sizes above 4096; handleAppend never returns with an accepted literal undrained (whatever the back end answered) and reports success only after the command line's CRLF was consumed; the decoder's error is sticky and Expect* failures are errors, so a handler never continues parsing after a failed read.",
  note="KNOWN FINDING (known_findings.txt): a refused literal is neither drained nor made a decoder error (Decoder.Literal/post0). Not covered: well-formedness of each response line (responseEncoder begin/end pairing, partial lines left in the buffer after an encoder error), interleaving of IDLE goroutine output (schedules), the serve loop.",
  design="§6 C04"),
 "C05": dict(
  text="Deductive proof, for every method of imapserver.Conn except serve and handleIdle and from an arbitrary entry state and configuration (TLS or not, InsecureAuth, any back-end outcome), that each call of a Session method is reached only in the RFC-permitted connection state (call-site obligations: Login only when not authenticated and over TLS or with InsecureAuth; Select/Create/.../Poll only when authenticated or selected; Unselect/Expunge/Search/Fetch/Store/Copy/Move only when selected), that checkState and canAuth have their exact meaning, that every handler other than login/authenticate/unauthenticate/select/unselect/logout leaves the state unchanged, and that those six perform exactly the RFC transitions for each back-end outcome (failed SELECT leaves no mailbox selected, etc.).",
  note="Frames of calls without contract come from govc's may-write analysis (CHA for interface and function-value calls); back-end Session implementations cannot write Conn's unexported fields (Go visibility). Object invariant assumed at method entry: c != nil && c.server != nil. Not covered: Conn.serve (greeting, PREAUTH, loop exit at logout), handleIdle (goroutine), the SASL closure inside handleAuthenticate, the unknown-command BYE in readCommand.",
  design="§6 C05"),
 "C06": dict(
  text="Deductive proof of the sequential, input-dependent part: no index/slice-bounds violation, failed type assertion, division by zero or reachable explicit panic in any method of imapserver.Conn (except serve, handleIdle) and of imapwire.Decoder, for all decoder outcomes (= all client byte streams); in particular Decoder.mustUnreadByte's panic is unreachable because every call follows a successful ReadByte (ghost state over the assumed bufio contract), and ExpectUIDSet's type assertion cannot fail.",
  note="Nil-dereference freedom is NOT claimed (dereferences are assumed non-nil after the check point). Two configuration-guarding panics are assumed unreachable with the reason stated in the contract (availableCaps, handleStartTLS's CopyN). Not covered: disconnect at every byte offset, goroutine leaks, exactly-once cleanup in serve, memory caps, recursion depth (crash points / schedules / not yet under contract).",
  design="§6 C06"),
 "C07": dict(
  text="Deductive proof that SessionTracker.DecodeSeqNum and EncodeSeqNum equal the fold of the per-update translation functions stepDec/stepEnc over the pending queue (unbounded queue length, all uint32 numbers), that the per-update translations are mutually inverse and yield zero exactly for the expunged / not-yet-announced message (lemmas for every well-formed update and count), and that the ghost folds terminate.",
  note="Mutex operations are no-ops (sequential reading under the lock). Queue-level composition of the per-update inverse lemmas, Poll and the fan-out in MailboxTracker.queueUpdate are not yet under contract.",
  design="§6 C07"),
 "C17": dict(
  text="Deductive proof of the ordering and outcome of the STARTTLS switch on both sides, as call-site obligations over ghost call records: the server creates the TLS layer only when STARTTLS is permitted (TLS configured, not authenticated, not already TLS — canStartTLS proved exact), only after the tagged OK was written without error and the buffered plaintext was drained (io.CopyN) into a buffer that is the FIRST reader handed to the TLS layer (io.MultiReader argument order), that reader exists before the TLS layer does and, whenever plaintext was buffered, the connection handed to tls.Server / tls.Client is the startTLSConn wrapping it; the buffered reader and writer are reset only after the TLS connection exists; on success Conn.conn is a *tls.Conn and both resets happened. The client does the same (drain, buffer first, reset after tls.Client). NewStartTLS returns a client only if startTLS succeeded and the observed state was NotAuthenticated (PREAUTH refused), and completing a STARTTLS command does not change the connection state (completeCommand's transition contract, shared with C12). Credentials are accepted only over TLS or with InsecureAuth (canAuth exact, shared with C05).",
  note="Assumed stdlib behaviour: bufio.Reader.Reset discards buffered data, io.MultiReader reads its arguments in order, tls.Server/tls.Client read only through the given conn, CopyN of Buffered() bytes cannot fail. Not covered: the capability advertisement table (LOGINDISABLED / AUTH=), segmentation timing, that DiscardLine reads nothing after the handler.",
  design="§6 C17"),
 "C18": dict(
  text="Deductive proof that the client only uses syntax the negotiated capabilities allow: a non-synchronising literal is started by Encoder.stringLiteral only with LITERAL+ or with LITERAL- and at most 4096 bytes, and by commandEncoder.Literal (APPEND) only for at most 4096 bytes with LITERAL- available (CapSet.Has implication rules proved exact for LITERAL-, LITERAL+, IMAP4rev2, UTF8=ACCEPT); beginCommand configures the wire encoder from exactly those capabilities; every direct use of Encoder.Quoted passes an admissible string (no CR/LF/NUL, 8-bit only with UTF-8 quoting); Encoder.Literal hands out a payload writer for a synchronising literal only after ContinuationRequest.Wait returned without error and a payload-dropping writer otherwise.",
  note="Not covered: real-time ordering of the server's '+' against client writes beyond the Wait contract (schedules), search CHARSET selection, cancellation of continuation requests in completeCommand.",
  design="§6 C18"),
 "C19": dict(
  text="Deductive proof that SearchCriteria.And yields the intersection field by field: for every size/date the combined Larger/Smaller/Since/Before/SentSince/SentBefore bound matches iff both operands' bounds match (unset = zero handled), every list field becomes old ++ other (length and element-wise, unbounded lengths), ModSeq is carried over / tightened; intersectSince/intersectBefore proved against the date matcher for all instants.",
  note="time.Time modelled as an opaque instant with IsZero/Before/After as a strict total order (assumed stdlib contract); operands must not share list backing arrays (precondition noListAliasing). The server parser's key-order independence and message.search's use of the semantics are not yet under contract.",
  design="§6 C19"),
 "C08": dict(
  text="Deductive proof of the per-operation obligations that keep the wire view consistent: Conn.poll forbids EXPUNGE exactly while answering FETCH, STORE and SEARCH (call-site obligation on Session.Poll, for every command name), UpdateWriter.WriteExpunge refuses when not allowed and reaches Conn.writeExpunge only when allowed; the in-memory back end's FETCH (closure of MailboxView.Fetch) hands only non-zero, client-known sequence numbers to FetchWriter.CreateMessage and its SEARCH adds only non-zero sequence numbers to the result, under the tracker's representation invariant (exported as imapserver.TrackerWF; EncodeSeqNum's contract from C07).",
  note="KNOWN FINDING (known_findings.txt): MOVE numbers its EXPUNGE responses after queueing the same expunges (UserSession.Move/callsite:MoveWriter.WriteExpunge). Closure preconditions (tracker well-formedness under the mailbox lock) are assumed for the closure unit. Not covered: upper bound 'at most the announced count', count shrinking only through EXPUNGE, exactly-once reporting, staticNumSet canonicity, multi-session interleavings, IDLE.",
  design="§6 C08"),
 "C09": dict(
  text="Deductive proof of two cores of the in-memory back end: (1) UID allocation in Mailbox.appendBytes — the new message gets exactly the old uidNext, uidNext advances by one, UIDVALIDITY is unchanged, the message is appended last and the existing list is unchanged, and the returned APPENDUID names that message (so UIDs strictly increase and are never reused); (2) message.bodySection's index arithmetic — for every non-negative partial offset and size, including 2^63-1, no signed overflow and no slice-bounds panic (overflow obligations enabled for this function).",
  note="Not covered (not claimed): agreement of STORE/EXPUNGE/MOVE/STATUS/SEARCH/FETCH/LIST results with a reference model, UIDVALIDITY on re-creation, flag set semantics, text/header search (go-message), whole-history equivalence.",
  design="§6 C09"),
 "C11": dict(
  text="Deductive proof of the sequential, input-dependent part: for every method of imapclient.Client except read and Close (all response parsers and handlers) and for all decoder outcomes (= all server byte streams): no index/slice-bounds violation, failed type assertion, division by zero or reachable explicit panic; message sequence numbers handed to handleFetch/handleExpunge are non-zero and every number added to a SEARCH result set is non-zero (so delivered result sets are static and SearchData.AllSeqNums/AllUIDs cannot panic on them); a COPYUID response code and an ESEARCH ALL result are delivered only if their sets are not open-ended (no '*'), so their accessors can enumerate them; the routing predicate of untagged STATUS dereferences no missing LIST entry (nil obligations enabled for that closure); Range.append (enumeration of result sets) terminates at the uint32 boundary (shared with C15).",
  note="Nil-dereference freedom not claimed. Three type assertions that follow findPendingCmdFunc with a type-testing predicate and three panics guarding API misuse / stdlib contracts are assumed with the reason stated in the contract file. Not covered: recursion depth of readBody/readThreadList, time/memory growth, the reader goroutine's recover, accessor methods other than AllSeqNums/AllUIDs.",
  design="§6 C11"),
 "C12": dict(
  text="Deductive proof that the client's mirror handlers update exactly the field the response names, from an arbitrary client state: handleExists sets only the message count, handleExpunge decrements only the count (not below zero), handleFlags replaces only the flag list (permanent flags, count and name unchanged), each only in the selected state and leaving the connection state unchanged; setState clears the summary exactly when leaving the selected state; readResponseData as a whole changes the mirror's flag list only through handleFlags, its message count only through handleExists/handleExpunge and never its name (so a PERMANENTFLAGS code leaves them alone); completeCommand performs exactly the completed command's transition (none on failure, none for commands other than LOGIN/AUTHENTICATE/UNAUTHENTICATE/SELECT/UNSELECT/LOGOUT); an untagged STATUS is routed by a predicate proved equal to 'pending STATUS for that mailbox, or pending LIST-STATUS whose current entry is that mailbox'.",
  note="Object invariant assumed at entry: state == Selected <=> mailbox != nil. Mutexes are no-ops; the goroutine setCaps may start is outside the sequential contract. Not covered: routing predicates of the other untagged responses (FETCH, LIST, SEARCH, ...), exactly-once completion (readResponseTagged), interleavings with beginCommand (schedules).",
  design="§6 C12"),
 "C15": dict(
  text="Deductive proof (govc: weakest-precondition VCs over go/ssa of the real code, contracts in internal/imapnum/contracts_verif.go, discharged by z3/cvc5) that Range.Contains/Less/Merge equal their mathematical specification for all uint32 inputs incl. 2^32-1 and '*', that Set.search/Contains/Dynamic are correct on every canonical set (unbounded length), that Range.append terminates and yields exactly the members in ascending order, that parseNum accepts exactly '*' and the decimal numerals without leading zero that fit 32 bits (yielding that value), and that parseNumRange returns a range satisfying the representation invariant.",
  note="Trusted: go/ssa + govc translation, solvers. Slice parameters viewed at offset 0; signed int arithmetic mathematical where no overflow obligation is generated. strconv.ParseUint modelled by a decimal-numeral theory (assumed). insert/AddRange/ParseSet/String not yet under contract (listed in evidence as not covered).",
  design="§6 C15"),
 "C16": dict(
  text="Deductive proof, for every input, chunking (atEOF or not, any decoder state carried over) and buffer size, of the safety and refusal half of the modified UTF-7 codec: encoder.Transform, decoder.Transform, encode and decode never index outside a buffer (the single allocation in decode is proved large enough for padding, UTF-16 and UTF-8 bytes; EncodeRune/Encode/Decode destination sizes are call-site obligations) and their loops terminate; both transformers keep nDst/nSrc inside the buffers and report success only when the whole source was consumed; the encoder writes only printable ASCII and, unless at EOF, refuses to encode a run of non-ASCII bytes that reaches the end of the chunk; the decoder reports success only if every source byte was printable ASCII (illegal bytes, CR/LF inside a shift), never accepts an unterminated shift (error at EOF, ErrShortSrc otherwise), rejects a base64 shift that directly follows the base64 shift of the previous call (state carried across calls), returns to its initial state after a successful call at EOF, and decode yields no printable-ASCII byte (printable ASCII hidden in base64 is rejected); the only errors are the three sentinels.",
  note="Assumed contracts of the standard library (encoding/base64 padded encoding lengths, alphabet and destination frame; utf8.DecodeRune/EncodeRune sizes and byte ranges; utf16.DecodeRune range), listed in evidence. Not covered (not claimed): decode(encode(s)) == s, validity of the decoder's UTF-8 output, the exact base64/UTF-16 bit arithmetic, '&' -> '&-' escaping in the output, rejection of back-to-back shifts inside one call, odd UTF-16 halves / lone surrogates as such (their bounds safety is proved), the callers in imapwire/imapserver.",
  design="§6 C16"),
 "C20": dict(
  text="Deductive proof that the server's LIST matcher equals the RFC wildcard semantics for every name, pattern and hierarchy delimiter (unbounded lengths, multi-byte delimiters included): matchList(name, delim, pattern) == specMatch, the recursive definition '* matches any string, % any string without the delimiter, other bytes themselves' (induction over the pattern via the function's own contract, loop invariant over the backtracking position, two lemmas connecting chunk comparison and the existential over split points); MatchList resolves reference and pattern exactly as specified (absolute pattern drops the reference, missing trailing delimiter added, name must extend the reference) before matching.",
  note="strings.HasPrefix/TrimPrefix/HasSuffix/IndexAny and string(rune) carry assumed contracts (listed in evidence). Not covered: the in-memory back end's selection of which mailboxes are offered to MatchList, \\Noselect parents for '%', subscription filtering, LIST-EXTENDED options.",
  design="§6 C20"),
}

NA = {
 "C03": "equality of delivered response data needs a byte-level grammar model and inverse proofs for ~40 recursive writer/parser pairs running through time.Format, mime, net/mail and go-message; no contract within reach expresses it (DESIGN.md §7)",
 "C10": "termination of waits under connection cuts/stalls is a liveness property of goroutines and channels at every crash point; sequential contracts are silent on it (DESIGN.md §7)",
 "C13": "data-race freedom and exactly-once completion under all schedules: the technique has no thread model (DESIGN.md §7)",
 "C14": "deadlock/race freedom of concurrent sessions quantifies over schedules; not decidable by per-function contracts (DESIGN.md §7)",
}
PENDING = "contracts for this property are not yet discharged by govc in this revision; not claimed until they are (see DESIGN.md §6 for the plan)"

def main():
    props = [json.loads(l)["id"] for l in open("/verif/properties.jsonl")]
    commits = subprocess.run(["git","-C","/repo","log","--format=%H %s"],capture_output=True,text=True).stdout.splitlines()
    hooks = [c.split()[0] for c in commits if c.split(" ",1)[1].startswith("verif:")]
    checks = []
    for p in props:
        if p in CLAIMS:
            c = CLAIMS[p]
            checks.append(dict(
                property_id=p,
                quick_cmd=f"bin/govc check --property {p} --tier quick",
                thorough_cmd=f"bin/govc check --property {p} --tier thorough",
                evidence_file=f"/verif/evidence/{p}.json",
                replay_cmd_template="bin/govc replay {path}",
                engine="govc",
                level_claimed=dict(category="proof", text=c["text"], design_ref=c["design"]),
                level_note=c["note"],
                technique="contract-based deductive verification: WP/VC generation over go/ssa of the real code, SMT (z3, cvc5)",
            ))
    na = []
    for p in props:
        if p in CLAIMS: continue
        na.append(dict(property_id=p, reason=NA.get(p, PENDING)))
    m = dict(
        version=1,
        setup_cmd="cd /verif/govc && GOFLAGS=-mod=vendor GOPROXY=off GOSUMDB=off GOTOOLCHAIN=local go build -o /verif/bin/govc .",
        hooks=dict(guard="verif", enable="-tags verif (contract files *_verif.go carry //go:build verif)",
                   baseline_off_cmd="cd /repo && GOFLAGS=-mod=mod GOPROXY=off GOSUMDB=off go test -vet=off -count=1 ./...",
                   source_commits=hooks, add_only=True),
        engines=[dict(name="govc", path="/verif/govc", serves_properties=sorted(CLAIMS), kind_free_text="deductive verifier for Go built here: contracts (//@ clauses) -> synthetic Go -> go/ssa symbolic execution -> SMT-LIB obligations -> z3 5.1 / cvc5 1.0 / z3 4.8")],
        checks=checks,
        not_applicable=na,
        notes="See DESIGN.md. Exit codes: 0 held, 1 VIOLATION, 2 engine failure (vacuity, load error, solver disagreement).",
    )
    json.dump(m, open("/verif/MANIFEST.json","w"), indent=1)
    print("claims:", sorted(CLAIMS), "n/a:", len(na))

main()
