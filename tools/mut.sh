#!/bin/sh
# usage: mut.sh <property> <python-snippet-file-or-'-'>   : apply an edit to /repo (via python on stdin), run the check, restore.
# The edit must not touch *_verif.go files; restoration uses git stash of non-verif files only.
prop="$1"; shift
cd /repo || exit 2
if [ -n "$(git status --porcelain)" ]; then echo "repo not clean"; git status --short; exit 2; fi
python3 - || { git checkout -- . ; exit 2; }
git diff --stat | tail -1
for p in $prop; do
  /verif/bin/govc check --property $p --no-evidence 2>&1 | grep -v "^VIOLATION" | cut -c1-170 | tail -${TAILN:-4}
done
git checkout -- .
git status --porcelain
