#!/bin/bash
# usage: mut2.sh <property> <fn-filter|''> <file relative to /repo> <python expr: s = s.replace(...)>...
# Applies textual replacements to one non-verif file of /repo (each must change the file), runs the check, restores the file.
prop="$1"; fn="$2"; file="$3"; shift 3
cd /repo || exit 2
git diff --quiet -- "$file" || { echo "$file already modified"; exit 2; }
for e in "$@"; do
python3 - "$file" "$e" <<'PY' || { git checkout -- "$file"; exit 2; }
import sys
f=sys.argv[1]; s=open(f).read(); o=s
exec(sys.argv[2])
if s==o: print("edit did not change the file"); sys.exit(1)
open(f,'w').write(s)
PY
done
git diff --stat -- "$file" | tail -1
( export GOFLAGS=-mod=mod GOPROXY=off GOSUMDB=off GOTOOLCHAIN=local; go build ./... ) || { git checkout -- "$file"; echo "DOES NOT BUILD"; exit 2; }
args="--property $prop --no-evidence --no-replay"
[ -n "$fn" ] && args="$args --fn $fn"
/verif/bin/govc check $args 2>&1 | grep -v "^VIOLATION" | cut -c1-${CUT:-200} | tail -${TAILN:-6}
git checkout -- "$file"
