#!/bin/sh
# run every claimed quick check; print one line per property
cd /verif
for p in $(python3 -c "import json; print(' '.join(c['property_id'] for c in json.load(open('MANIFEST.json'))['checks']))"); do
  bin/govc check --property $p $@ 2>&1 | grep "^VIOLATION\|^govc: property\|^ENGINE\|^KNOWN" | cut -c1-220
done
