#!/bin/bash
# usage: seedtest.sh <seed-dir (contains patch.diff, demo_test.go, README.md)> <property ids to run...>
# Confirms the seed in a scratch worktree (builds, baseline passes, demo fails with / passes without), then
# applies it to /repo, runs the checks, and restores /repo.
export GOFLAGS=-mod=mod GOPROXY=off GOSUMDB=off GOTOOLCHAIN=local
seed="$1"; shift
props="$@"
[ -z "$(git -C /repo status --porcelain)" ] || { echo "repo not clean"; exit 2; }
wt=$(mktemp -d /var/tmp/seedwt.XXXXXX)
git -C /repo worktree add -q --detach "$wt" HEAD || exit 2
cleanup() { git -C /repo worktree remove --force "$wt" 2>/dev/null; rm -rf "$wt"; }
trap cleanup EXIT
# where does the demo go?
place=$(grep -o '[A-Za-z0-9_/.-]*_test\.go' "$seed/README.md" | grep -v '^demo_test.go$' | grep -v 'out/[0-9]*/demo_test.go' | grep -v '^[a-z_]*_test.go$' | head -1)
[ -z "$place" ] && place=$(grep -o '[A-Za-z0-9_/.-]*_test\.go' "$seed/README.md" | grep -v '^demo_test.go$' | grep -v 'out/[0-9]*/demo_test.go' | head -1)
pkgline=$(head -20 "$seed/demo_test.go" | grep '^package ' | head -1)
place=${DEMO_PLACE:-$place}
place=${place#/tmp/seed-C[0-9][0-9]/}
echo "demo placement: $place ($pkgline)"
cp "$seed/demo_test.go" "$wt/$place" || exit 2
demodir=$(dirname "$place")
( cd "$wt" && go test -count=1 -run "${DEMO_RUN:-.}" "./$demodir" > "$wt/.clean.out" 2>&1 ); clean=$?
echo "demo on clean tree: exit $clean"
( cd "$wt" && git apply "$seed/patch.diff" ) || { echo "patch does not apply"; exit 2; }
( cd "$wt" && go build ./... ) || { echo "BUILD FAILS with patch"; exit 2; }
( cd "$wt" && go test -count=1 "./$demodir" > "$wt/.mut.out" 2>&1 ); mut=$?
echo "demo with patch: exit $mut"
rm "$wt/$place"
( cd "$wt" && go test -count=1 ./... > "$wt/.base.out" 2>&1 ); base=$?
echo "baseline suite with patch: exit $base"
if [ $clean -ne 0 ] || [ $mut -eq 0 ] || [ $base -ne 0 ]; then echo "SEED NOT CONFIRMED"; for f in .clean.out .mut.out .base.out; do echo "--- $f"; tail -n 5 "$wt/$f"; done; fi
# now the checks on /repo
git -C /repo apply "$seed/patch.diff" || { echo "patch does not apply to /repo"; exit 2; }
for p in $props; do
  /verif/bin/govc check --property $p --no-evidence 2>&1 | grep "^VIOLATION\|^govc: property\|ENGINE" | cut -c1-300 | tail -6
done
git -C /repo checkout -- .
git -C /repo status --porcelain
