#!/bin/bash
# usage: seedwt.sh <seed-dir (patch.diff, demo_test.go, README.md with "place: <path>" first line)> <property ids...>
# Like seedtest.sh, but never touches /repo's working tree: the seed is confirmed and the checks are run in a
# scratch worktree of /repo's HEAD (govc --repo). Set SKIP_CONFIRM=1 to skip the demo/baseline confirmation.
export GOFLAGS=-mod=mod GOPROXY=off GOSUMDB=off GOTOOLCHAIN=local
seed="$(cd "$1" && pwd)"; shift
props="$@"
wt=$(mktemp -d /var/tmp/seedwt.XXXXXX)
git -C /repo worktree add -q --detach "$wt" HEAD || exit 2
cleanup() { git -C /repo worktree remove --force "$wt" 2>/dev/null; rm -rf "$wt"; }
trap cleanup EXIT
place=$(head -1 "$seed/README.md" | sed -n 's/^place: *//p')
place=${DEMO_PLACE:-$place}
if [ -z "$SKIP_CONFIRM" ]; then
  [ -z "$place" ] && { echo "no place line"; exit 2; }
  cp "$seed/demo_test.go" "$wt/$place" || exit 2
  demodir=$(dirname "$place")
  ( cd "$wt" && go test -count=1 "./$demodir" > "$wt/.clean.out" 2>&1 ); clean=$?
  ( cd "$wt" && git apply "$seed/patch.diff" ) || { echo "patch does not apply"; exit 2; }
  ( cd "$wt" && go build ./... ) || { echo "BUILD FAILS with patch"; exit 2; }
  ( cd "$wt" && go test -count=1 "./$demodir" > "$wt/.mut.out" 2>&1 ); mut=$?
  rm "$wt/$place"
  ( cd "$wt" && go test -count=1 ./... > "$wt/.base.out" 2>&1 ); base=$?
  echo "confirm: demo-clean=$clean demo-patched=$mut baseline-patched=$base"
  if [ $clean -ne 0 ] || [ $mut -eq 0 ] || [ $base -ne 0 ]; then echo "SEED NOT CONFIRMED"; for f in .clean.out .mut.out .base.out; do echo "--- $f"; tail -n 5 "$wt/$f"; done; fi
  rm -f "$wt"/.clean.out "$wt"/.mut.out "$wt"/.base.out
else
  ( cd "$wt" && git apply "$seed/patch.diff" ) || { echo "patch does not apply"; exit 2; }
fi
for p in $props; do
  /verif/bin/govc check --repo "$wt" --property $p --no-evidence --no-replay 2>&1 | grep "^VIOLATION\|^govc: property\|ENGINE" | cut -c1-260 | tail -${TAILN:-4}
done
