#!/bin/bash
# usage: thorough.sh <property>
# Thorough tier of one property: (1) every obligation with the long solver budget and solver
# agreement (govc --tier thorough); (2) selftest: every stored seeded change whose deciding
# check is this property (seeded/*/meta.json: check_property, selftest == must-fail) is applied
# to a scratch worktree of /repo's HEAD and must make the check report a violation - a seed
# that is no longer caught means the machinery lost strength: ENGINE-FAILURE, exit 2.
# Exit: 0 held, 1 violation on the real tree, 2 engine failure.
prop="$1"
cd /verif || exit 2
bin/govc check --property "$prop" --tier thorough
rc=$?
[ $rc -ne 0 ] && exit $rc
fail=0
n=0
for d in seeded/*/; do
  id=$(basename "$d")
  read cp st < <(python3 -c "import json,sys; m=json.load(open('$d/meta.json')); print(m.get('check_property',''), m.get('selftest',''))" 2>/dev/null)
  [ "$cp" = "$prop" ] || continue
  [ "$st" = "must-fail" ] || { echo "selftest: $id skipped ($st)"; continue; }
  wt=$(mktemp -d /var/tmp/selftest.XXXXXX)
  git -C /repo worktree add -q --detach "$wt" HEAD || { echo "ENGINE-FAILURE selftest: cannot create worktree"; exit 2; }
  if ! git -C "$wt" apply "/verif/$d/patch.diff" 2>/dev/null; then
    echo "selftest: $id does not apply to the current tree (skipped)"
  else
    v=$(bin/govc check --repo "$wt" --property "$prop" --no-evidence --no-replay 2>&1 | grep -c "^VIOLATION")
    n=$((n+1))
    if [ "$v" -ge 1 ]; then echo "selftest: $id caught ($v obligations)"; else echo "ENGINE-FAILURE selftest: seeded change $id is no longer caught by the $prop check"; fail=1; fi
  fi
  git -C /repo worktree remove --force "$wt" 2>/dev/null; rm -rf "$wt"
done
echo "selftest: property=$prop seeds=$n"
[ $fail -ne 0 ] && exit 2
exit 0
